"""C09 / C06: name forms and the clone bookkeeping of the parser (avocado_i2n/cartgraph/node.py, graph.py).

* TestNode.setless_form is verified whole: the *longest* matching test-set prefix is stripped (equivalent tests of
  different sets / workers must map to the same form, otherwise they are neither reused nor bridged).
* Two statement blocks of TestGraph.parse_cloned_branches_for_node_and_object are extracted mechanically on every run:
  `rebridge` (a new clone is bridged with the equivalent nodes of other workers: it adopts THEIR visit registers, the
  already visited nodes keep theirs) and `queue_grandchild` (the next clone level is queued with the current clone source
  as the parent to replace).  What the extraction drops: the rest of the parser (bounded stand-in graph_wf).
"""
import ast
import z3
from pyvc.kinds import V, STR, INT, BOOL, Ref, Seq, SetK, NONE, VList, VTuple, const, fresh
from pyvc.contract import Contract, seam_handler
import pyvc.contract as _C
from contracts.node_getters import by_contract
from contracts.node_edges import BRIDGE, BRIDGE_OVERRIDES, REGS, re_search

NODE = "avocado_i2n/cartgraph/node.py"
GRAPH = "avocado_i2n/cartgraph/graph.py"

M = "self.params.objects('main_restrictions')"
NAME = "self.params['name']"
SETLESS_FORM = Contract(
    target=f"{NODE}::TestNode.setless_form",
    params={"self": Ref("TestNode")},
    loops={0: {"invariants": [
        f"max_restr == '' or (exists(range(0, _i), lambda j: {M}[j] == max_restr) and {NAME}.startswith(max_restr))",
        f"forall(range(0, _i), lambda j: implies({NAME}.startswith({M}[j]), len({M}[j]) <= len(max_restr)))"],
        "kinds": {"max_restr": STR, "main_restr": STR}}},
    raises={"ParamNotFound": None, "KeyError": None},
    ensures=[
        ("strips_the_chosen_set", f"result == {NAME}.replace(max_restr + '.', '', 1)"),
        ("chosen_set_matches", f"max_restr == '' or (exists(range(0, len({M})), lambda j: {M}[j] == max_restr) and "
                               f"{NAME}.startswith(max_restr))"),
        ("chosen_set_is_the_longest_match", f"forall({M}, lambda m: implies({NAME}.startswith(m), len(m) <= len(max_restr)))"),
    ],
    result_kind=STR, frame=[], props=["C09", "C16"],
)


def rebridge_block(fn):
    loops = [n for n in ast.walk(fn) if isinstance(n, ast.For) and isinstance(n.target, ast.Name) and n.target.id == "old_bridge"]
    return [loops[0]] if len(loops) == 1 else []


def queue_block(fn):
    loops = [n for n in ast.walk(fn) if isinstance(n, ast.For) and isinstance(n.target, ast.Name) and n.target.id == "grandchild"]
    return loops[0].body if len(loops) == 1 else []


KEEP = " and ".join(f"b.{r} == old(b.{r})" for r in REGS)
SHARE = " and ".join(f"child.{r} == b.{r}" for r in REGS)
REBRIDGE = Contract(
    target=f"{GRAPH}::TestGraph.parse_cloned_branches_for_node_and_object",
    name="TestGraph.parse_cloned_branches_for_node_and_object#rebridge", block=("rebridge", rebridge_block),
    params={"child": Ref("TestNode"), "old_bridges": Seq(Ref("TestNode"))},
    requires=["forall(old_bridges, lambda b: b is not None and b != child and b not in child._bridged_nodes and "
              "child not in b._bridged_nodes and 'shortname' in b.params and 'name' in b.params and "
              "re_search(b.bridged_form, child.params['name']) and re_search(child.bridged_form, b.params['name']))",
              "'name' in child.params and 'shortname' in child.params",
              # equivalent nodes of the other workers already share their registers (they were bridged with each other)
              "forall([Ref('TestNode'), Ref('TestNode')], lambda a, b: implies(a in old_bridges and b in old_bridges, "
              + " and ".join(f"a.{r} == b.{r}" for r in REGS) + "))",
              "forall(range(0, len(old_bridges)), lambda i: forall(range(0, len(old_bridges)), lambda j: "
              "implies(i != j, old_bridges[i] != old_bridges[j])))"],
    overrides=dict(BRIDGE_OVERRIDES, **{"TestNode.bridge_with_node": by_contract(BRIDGE)}),
    extra_names={"re_search": _C.VFunc("handler", fn=lambda e, s, a, k, n: re_search(e, s, None, a, k, n), name="re_search")},
    stubs=BRIDGE.stubs,
    loops={0: {"invariants": [
        f"forall(old_bridges, lambda b: {KEEP})",
        f"forall(range(0, _i), lambda j: let(old_bridges[j], lambda b: {SHARE} and b in child._bridged_nodes))",
        "forall(range(_i, len(old_bridges)), lambda j: old_bridges[j] not in child._bridged_nodes and "
        "child not in old_bridges[j]._bridged_nodes)"],
        "modifies": BRIDGE.frame, "kinds": {"old_bridge": Ref("TestNode")}}},
    raises={"ValueError": None},
    ensures=[
        # progress registered by other workers is kept: the visited nodes keep their registers ...
        ("visited_nodes_keep_their_registers", f"forall(old_bridges, lambda b: {KEEP})"),
        # ... and the new clone joins them
        ("clone_adopts_the_shared_registers", f"forall(old_bridges, lambda b: {SHARE} and b in child._bridged_nodes)"),
    ],
    frame=BRIDGE.frame, props=["C09"],
    assumes=["extracted block: the re-bridging loop of a newly created clone; bridge_with_node by its proved contract"],
)

QUEUE = Contract(
    target=f"{GRAPH}::TestGraph.parse_cloned_branches_for_node_and_object",
    name="TestGraph.parse_cloned_branches_for_node_and_object#queue_grandchild", block=("queue_grandchild", queue_block),
    params={"to_clone": VList([]), "grandchild": Ref("TestNode"), "clones": Seq(Ref("TestNode")),
            "clone_source": Ref("TestNode"), "test_node": Ref("TestNode")},
    requires=["clone_source != test_node"],
    ensures=[("next_level_replaces_the_current_clone_source", "len(to_clone) == 1 and to_clone[0][0] == grandchild and "
                                                              "to_clone[0][1] == clones and to_clone[0][2] == clone_source")],
    frame=[], props=["C06"],
    assumes=["extracted block: the statement that queues one grandchild for the next clone level"],
)
