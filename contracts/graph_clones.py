"""C09 / C06: name forms and the clone bookkeeping of the parser (avocado_i2n/cartgraph/node.py, graph.py).

* TestNode.setless_form is verified whole: the *longest* matching test-set prefix is stripped (equivalent tests of
  different sets / workers must map to the same form, otherwise they are neither reused nor bridged).
* Two statement blocks of TestGraph.parse_cloned_branches_for_node_and_object are extracted mechanically on every run:
  `rebridge` (a new clone is bridged with the equivalent nodes of other workers: it adopts THEIR visit registers, the
  already visited nodes keep theirs) and `queue_grandchild` (the next clone level is queued with the current clone source
  as the parent to replace).  What the extraction drops: the rest of the parser (bounded stand-in graph_wf).
"""
import ast
import z3
from pyvc.kinds import V, STR, INT, BOOL, Ref, Seq, SetK, NONE, VList, VTuple, const, fresh
from pyvc.contract import Contract, seam_handler
from pyvc.contract import first_assigned_constant as _fac
_first_empty_string = _fac('')
import pyvc.contract as _C
from contracts.node_getters import by_contract
from contracts.node_edges import BRIDGE, BRIDGE_OVERRIDES, REGS, re_search

NODE = "avocado_i2n/cartgraph/node.py"
GRAPH = "avocado_i2n/cartgraph/graph.py"

M = "self.params.objects('main_restrictions')"
NAME = "self.params['name']"
SETLESS_FORM = Contract(
    target=f"{NODE}::TestNode.setless_form",
    aliases={"max_restr": _first_empty_string},
    params={"self": Ref("TestNode")},
    loops={0: {"invariants": [
        f"max_restr == '' or (exists(range(0, _i), lambda j: {M}[j] == max_restr) and {NAME}.startswith(max_restr))",
        f"forall(range(0, _i), lambda j: implies({NAME}.startswith({M}[j]), len({M}[j]) <= len(max_restr)))"],
        "kinds": {"max_restr": STR, "main_restr": STR}}},
    raises={"ParamNotFound": None, "KeyError": None},
    ensures=[
        ("strips_the_chosen_set", f"result == {NAME}.replace(max_restr + '.', '', 1)"),
        ("chosen_set_matches", f"max_restr == '' or (exists(range(0, len({M})), lambda j: {M}[j] == max_restr) and "
                               f"{NAME}.startswith(max_restr))"),
        ("chosen_set_is_the_longest_match", f"forall({M}, lambda m: implies({NAME}.startswith(m), len(m) <= len(max_restr)))"),
    ],
    # the same statement without the function's local `max_restr` (evaluable on the result alone): native replay only,
    # z3 does not discharge the nested quantifier form within budget
    native_ensures=[
        ("longest_matching_set_stripped", f"exists(range(-1, len({M})), lambda j: let('' if j < 0 else {M}[j], lambda m: "
                                          f"(j < 0 or {NAME}.startswith(m)) and "
                                          f"forall({M}, lambda x: implies({NAME}.startswith(x), len(x) <= len(m))) and "
                                          f"result == {NAME}.replace(m + '.', '', 1)))"),
    ],
    result_kind=STR, frame=[], props=["C09", "C16", "C06"],
)


def rebridge_block(fn):
    """the statements that follow `old_bridges = ...` in the same body (in the current source: the re-bridging loop)"""
    for n in ast.walk(fn):
        body = getattr(n, "body", None)
        for field in ("body", "orelse"):
            stmts = getattr(n, field, None)
            if not isinstance(stmts, list):
                continue
            for i, s in enumerate(stmts):
                if isinstance(s, ast.Assign) and ast.unparse(s.targets[0]) == "old_bridges":
                    return stmts[i + 1:]
    return []


def queue_block(fn):
    loops = [n for n in ast.walk(fn) if isinstance(n, ast.For) and isinstance(n.target, ast.Name) and n.target.id == "grandchild"]
    return loops[0].body if len(loops) == 1 else []


KEEP = " and ".join(f"b.{r} == old(b.{r})" for r in REGS)
SHARE = " and ".join(f"child.{r} == b.{r}" for r in REGS)
REBRIDGE = Contract(
    target=f"{GRAPH}::TestGraph.parse_cloned_branches_for_node_and_object",
    name="TestGraph.parse_cloned_branches_for_node_and_object#rebridge", block=("rebridge", rebridge_block),
    params={"child": Ref("TestNode"), "old_bridges": Seq(Ref("TestNode"))},
    requires=["forall(old_bridges, lambda b: b is not None and b != child and b not in child._bridged_nodes and "
              "child not in b._bridged_nodes and 'shortname' in b.params and 'name' in b.params and "
              "re_search(b.bridged_form, child.params['name']) and re_search(child.bridged_form, b.params['name']))",
              "'name' in child.params and 'shortname' in child.params",
              # equivalent nodes of the other workers already share their registers (they were bridged with each other)
              "forall([Ref('TestNode'), Ref('TestNode')], lambda a, b: implies(a in old_bridges and b in old_bridges, "
              + " and ".join(f"a.{r} == b.{r}" for r in REGS) + "))",
              "forall(range(0, len(old_bridges)), lambda i: forall(range(0, len(old_bridges)), lambda j: "
              "implies(i != j, old_bridges[i] != old_bridges[j])))"],
    overrides=dict(BRIDGE_OVERRIDES, **{"TestNode.bridge_with_node": by_contract(BRIDGE)}),
    extra_names={"re_search": _C.VFunc("handler", fn=lambda e, s, a, k, n: re_search(e, s, None, a, k, n), name="re_search")},
    stubs=BRIDGE.stubs,
    loops={0: {"invariants": [
        f"forall(old_bridges, lambda b: {KEEP})",
        f"forall(range(0, _i), lambda j: let(old_bridges[j], lambda b: {SHARE} and b in child._bridged_nodes))",
        "forall(range(_i, len(old_bridges)), lambda j: old_bridges[j] not in child._bridged_nodes and "
        "child not in old_bridges[j]._bridged_nodes)"],
        "modifies": BRIDGE.frame, "kinds": {"old_bridge": Ref("TestNode")}}},
    raises={"ValueError": None},
    ensures=[
        # progress registered by other workers is kept: the visited nodes keep their registers ...
        ("visited_nodes_keep_their_registers", f"forall(old_bridges, lambda b: {KEEP})"),
        # ... and the new clone joins them
        ("clone_adopts_the_shared_registers", f"forall(old_bridges, lambda b: {SHARE} and b in child._bridged_nodes)"),
    ],
    frame=BRIDGE.frame, props=["C09", "C04"],
    assumes=["extracted block: the re-bridging statements of a newly created clone; bridge_with_node by its proved contract"],
)

QUEUE = Contract(
    target=f"{GRAPH}::TestGraph.parse_cloned_branches_for_node_and_object",
    name="TestGraph.parse_cloned_branches_for_node_and_object#queue_grandchild", block=("queue_grandchild", queue_block),
    params={"to_clone": VList([]), "grandchild": Ref("TestNode"), "clones": Seq(Ref("TestNode")),
            "clone_source": Ref("TestNode"), "test_node": Ref("TestNode")},
    requires=["clone_source != test_node"],
    ensures=[("next_level_replaces_the_current_clone_source", "len(to_clone) == 1 and to_clone[0][0] == grandchild and "
                                                              "to_clone[0][1] == clones and to_clone[0][2] == clone_source")],
    frame=[], props=["C06"],
    assumes=["extracted block: the statement that queues one grandchild for the next clone level"],
)


# ---------------------------------------------------------------- TestNode.validate: one net, the named vms (C06)
def validate_objects_block(fn):
    out, on = [], False
    for s in fn.body:
        if isinstance(s, ast.Assign) and ast.unparse(s.targets[0]) == "param_nets":
            on = True
        if isinstance(s, ast.For):
            break
        if on:
            out.append(s)
    return out


NETS = "[o.suffix for o in self.objects if o.key == 'nets']"
VMS = "{o.suffix for o in self.objects if o.key == 'vms'}"
VALIDATE_OBJECTS = Contract(
    target=f"{NODE}::TestNode.validate", name="TestNode.validate#objects", block=("objects", validate_objects_block),
    params={"self": Ref("TestNode")},
    requires=["forall(self.objects, lambda o: o is not None)", "len(self.objects) > 0"],
    raises={"AssertionError": None, "ValueError": None, "IndexError": None, "ParamNotFound": None, "KeyError": None},
    ensures=[
        # a node that passes validation uses exactly one network object, first among its objects and named by its parameters
        ("exactly_one_net_first_and_named", "len(attr_nets) == 1 and len(param_nets) == 1 and "
                                            "self.objects[0].suffix == param_nets[0] and attr_nets[0] == param_nets[0]"),
        ("nets_are_the_net_objects", "forall(STR, lambda s: (s in attr_nets) == exists(self.objects, lambda o: o.key == 'nets' and o.suffix == s))"),
        # ... and exactly the vms its parameters name
        ("vms_are_the_named_ones", f"forall(STR, lambda v: (v in {VMS}) == (v in self.params.objects('vms')))"),
    ],
    outputs={"attr_nets": Seq(STR), "param_nets": Seq(STR)},
    frame=[], props=["C06"],
    assumes=["extracted block: the net / vm checks of validate (before the loop over the setup nodes)"],
)


def validate_dependency_step(fn):
    loops = [n for n in ast.walk(fn) if isinstance(n, ast.For) and isinstance(n.target, ast.Name) and n.target.id == "dependency_object"]
    return loops[0].body if len(loops) == 1 else []


PARENT_STATE = "old(dependency_object.object_typed_params(node.params).get('set_state', ''))"
CHILD_STATE = "old(dependency_object.object_typed_params(self.params)['get_state'])"
VALIDATE_DEPENDENCY = Contract(
    target=f"{NODE}::TestNode.validate", name="TestNode.validate#dependency_step", block=("dependency_step", validate_dependency_step),
    params={"self": Ref("TestNode"), "node": Ref("TestNode"), "dependency_object": Ref("TestObject")},
    requires=["forall(dependency_object.composites, lambda c: c is not None)"],
    raises={"ValueError": None, "ParamNotFound": None, "KeyError": None},
    ensures=[
        # a dependency that passes validation: the parent produces a state for this object, and exactly the required one
        ("parent_produces_the_required_state", f"len({PARENT_STATE}) > 0 and ({CHILD_STATE} == '0root' or {CHILD_STATE} == {PARENT_STATE})"),
    ],
    frame=[], props=["C06", "C01"],
    assumes=["extracted block: body of the loop over the objects of one dependency edge in validate"],
)


# ---------------------------------------------------------------- lazy expansion predicates (C09): is_unrolled
from contracts.node_decisions import READY_OVERRIDES                                  # noqa: E402

# call-site view of setless_form: a pure string-valued function of the node (its own contract is proved above)
SETLESS_FORM_SITE = Contract(target=SETLESS_FORM.target, name="TestNode.setless_form[call site]", params={"self": Ref("TestNode")},
                             raises={}, ensures=[], result_kind=STR, frame=[], props=[])

NID = "(n.prefix + '-' + n.params['name'])"
UNROLLED_FOR = (f"exists(keys_of(self._cleanup_nodes), lambda n: self.setless_form in {NID} and "
                f"(worker is None or worker.id in {NID}))")
IS_UNROLLED = Contract(
    target=f"{NODE}::TestNode.is_unrolled",
    params={"self": Ref("TestNode"), "worker": (Ref("TestWorker"), "nullable")},
    requires=["wf_map(self._cleanup_nodes)", "forall(keys_of(self._cleanup_nodes), lambda n: n is not None and 'name' in n.params)",
              "'name' in self.params", "implies(worker is not None, worker.net is not None)"],
    overrides=dict(READY_OVERRIDES, **{"TestNode.setless_form": by_contract(SETLESS_FORM_SITE)}),
    raises={"RuntimeError": "not self.is_shared_root() and len(self.objects) != 0", "ValueError": None},
    loops={0: {"invariants": [
        f"forall(range(0, _i), lambda j: let(keys_of(self._cleanup_nodes)[j], lambda n: not (self.setless_form in {NID} and "
        f"(worker is None or worker.id in {NID}))))"],
        "kinds": {"node": Ref("TestNode")}}},
    ensures=[
        ("shared_root_is_unrolled", "implies(self.is_shared_root(), result == True)"),
        ("incompatible_worker_counts_as_unrolled", "implies(not self.is_shared_root() and worker is not None and "
                                                   "worker.net.long_suffix in self.incompatible_workers, result == True)"),
        ("unrolled_iff_expanded_for_the_worker", f"implies(not self.is_shared_root() and not (worker is not None and "
                                                 f"worker.net.long_suffix in self.incompatible_workers) and "
                                                 f"not (worker is None and len(self.incompatible_workers) > 0), result == {UNROLLED_FOR})"),
    ],
    result_kind=BOOL, frame=[], props=["C09"],
)


from contracts.node_decisions import IS_CLEANUP_READY                                  # noqa: E402
from contracts.node_getters import GETTER_OVERRIDES, WF_NODE                            # noqa: E402

DONE_BY = "(self.is_unrolled(pw) and self.is_cleanup_ready(pw) and len(pw.restrs) == 0)"
SHOULD_PARSE = Contract(
    target=f"{NODE}::TestNode.should_parse",
    params={"self": Ref("TestNode"), "worker": (Ref("TestWorker"), "nullable")},
    requires=WF_NODE + IS_UNROLLED.requires[:3] + IS_CLEANUP_READY.requires + [
        "forall(self.shared_involved_workers, lambda w: w is not None and w.net is not None)",
        "self.is_shared_root() or len(self.objects) == 0",
        # formatting the worker in the log message calls TestWorker.__repr__, which reads its spawner parameter
        "implies(worker is not None, 'nets_spawner' in worker.params)"],
    overrides=dict(GETTER_OVERRIDES, **{"TestNode.is_unrolled": by_contract(IS_UNROLLED),
                                        "TestNode.is_cleanup_ready": by_contract(IS_CLEANUP_READY)}),
    stubs=IS_CLEANUP_READY.stubs,
    raises={"ValueError": None},
    loops={0: {"invariants": [f"forall(_seen, lambda pw: not {DONE_BY})"], "kinds": {"picked_worker": Ref("TestWorker")}}},
    ensures=[
        # a flat test is parsed again unless some unrestricted worker has already expanded and completed it
        ("parse_unless_completed_by_an_unrestricted_worker", f"result == (not exists(self.shared_involved_workers, lambda pw: {DONE_BY}))"),
    ],
    result_kind=BOOL, frame=[], props=["C09"],
)


# ---------------------------------------------------------------- lazy expansion: when may one existing variant be reused? (C09)
_sch = __import__("contracts.schema", fromlist=["SCHEMA"]).SCHEMA
_sch["TestGraph"]["fields"].setdefault("restrs", __import__("pyvc.kinds", fromlist=["Map"]).Map(STR, STR))


def unique_node_block(fn):
    out, on = [], False
    for s in fn.body:
        text = ast.unparse(s)
        if text.startswith("unique_new_node = len(self.restrs)"):
            on = True
        if on:
            out.append(s)
        if on and text.startswith("unique_new_node = test_node.params.get_boolean"):
            break
    return out


ALL_RESTRICTED = ("(len(keys_of(self.restrs)) > 0 and forall(keys_of(self.restrs), lambda s: self.restrs[s].rstrip() != ''))")
UNIQUE_NODE = Contract(
    target=f"{GRAPH}::TestGraph.get_and_parse_nodes_from_flat_node_and_object",
    name="TestGraph.get_and_parse_nodes_from_flat_node_and_object#unique_node", block=("unique_node", unique_node_block),
    params={"self": Ref("TestGraph"), "test_node": Ref("TestNode")},
    requires=["wf_map(self.restrs)"],
    loops={0: {"invariants": ["unique_new_node == (len(keys_of(self.restrs)) > 0)",
                              "forall(range(0, _i), lambda j: self.restrs[keys_of(self.restrs)[j]].rstrip() != '')"],
               "kinds": {"suffix": STR, "unique_new_node": BOOL}}},
    outputs={"unique_new_node": BOOL},
    raises={"ValueError": None},
    ensures=[
        # a single already parsed variant stands for the flat test only if EVERY object the user restricts is pinned down
        # (or the test says so itself); otherwise all variants have to be expanded
        ("reuse_only_if_every_user_restriction_is_given", f"unique_new_node == test_node.params.get_boolean('unique_nodes_from_flat', {ALL_RESTRICTED})"),
    ],
    frame=[], props=["C09"],
    assumes=["extracted block: the statements that decide whether a unique existing child may be reused for a flat node"],
)
