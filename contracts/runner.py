"""Contracts of the runner side: run_test_node, all_results_ok (C02, C03, C10)."""
import z3
from pyvc.kinds import V, STR, INT, BOOL, REAL, Ref, Seq, SetK, Map, NULL, RefSort, VNone, NONE, fresh, fresh_name, safe_forall
from pyvc.contract import Contract, contract_handler, seam_handler
import pyvc.contract as _C
from contracts.node_getters import SHARED_RESULTS, by_contract, WF_BRIDGED, BRL, FLAT as NODE_FLAT

RUNNER = "avocado_i2n/plugins/runner.py"
from pyvc.kinds import const  # noqa: E402
# statuses avocado reports for a finished test (the journal never contains a pending status)
DEFINITE_STATUSES = const(["PASS", "FAIL", "ERROR", "WARN", "SKIP", "CANCEL", "INTERRUPTED"])
RUNNER_NAMES = {"DEFINITE": DEFINITE_STATUSES}
JR = 'Ref("JobResult")'

# ---------------------------------------------------------------- the seam: run_test_task
RUN_TEST_TASK = Contract(
    target=f"{RUNNER}::TestRunner.run_test_task",
    name="TestRunner.run_test_task[seam]",
    params={"self": Ref("TestRunner"), "node": Ref("TestNode")},
    raises={"RuntimeError": "node.started_worker is None or node.started_worker.spawner is None",
            "ParamNotFound": None},
    extra_names=RUNNER_NAMES,
    ensures=[
        # results only arrive, they are never withdrawn or rewritten (append-only journal)
        ("append_only", "len(self.job.result.tests) >= old(len(self.job.result.tests)) and "
                        "forall(range(0, old(len(self.job.result.tests))), lambda k: self.job.result.tests[k] == "
                        "old(self.job.result.tests)[k])"),
        ("well_formed", "forall(self.job.result.tests, lambda t: t is not None and t['name'] is not None and t['status'] in DEFINITE)"),
    ],
    frame=["JobResultSet.tests", "JobResult.j_status", "JobResult.j_time", "JobResult.tid", "TestID.name", "TestID.uid"],
    props=[],
)


def sleep_suspension(eng, st, recv, args, kw, node):
    """await asyncio.sleep(...): other coroutines run; results may arrive meanwhile (append-only)."""
    h = contract_handler(SLEEP)
    runner = st.frames[-1].get("self")
    yield from h(eng, st, runner, [], {}, node)


SLEEP = Contract(
    target=f"{RUNNER}::TestRunner.run_test_task",
    name="asyncio.sleep[suspension]",
    params={"self": Ref("TestRunner")},
    extra_names=RUNNER_NAMES,
    ensures=[("append_only", "len(self.job.result.tests) >= old(len(self.job.result.tests)) and "
                             "forall(range(0, old(len(self.job.result.tests))), lambda k: self.job.result.tests[k] == "
                             "old(self.job.result.tests)[k])"),
             ("well_formed", "forall(self.job.result.tests, lambda t: t is not None and t['name'] is not None and t['status'] in DEFINITE)")],
    frame=["JobResultSet.tests", "JobResult.j_status", "JobResult.j_time", "JobResult.tid", "TestID.name", "TestID.uid"],
    props=[],
)

NODE_OVERRIDES = {
    "TestNode.shared_results": by_contract(SHARED_RESULTS),
    "TestRunner.run_test_task": contract_handler(RUN_TEST_TASK),
    "asyncio.sleep": sleep_suspension,
}

K_RUNS = "len(old(node.shared_results))"
UID = f"ite({K_RUNS} > 0, old(node.prefix) + 'r' + str({K_RUNS}), old(node.prefix))"
MATCH = f"(t['name'].name == node.params['name'] and t['name'].uid == {UID})"

RUN_TEST_NODE = Contract(
    target=f"{RUNNER}::TestRunner.run_test_node",
    params={"self": Ref("TestRunner"), "node": Ref("TestNode"), "status_timeout": INT},
    requires=["status_timeout >= 1", "forall(node._bridged_nodes, lambda b: b is not None)",
              "self.job is not None and self.job.result is not None",
              "forall(self.job.result.tests, lambda t: t is not None and t['name'] is not None and t['status'] in DEFINITE)", "'name' in node.params",
              "forall(node.results, lambda r: r is not None and allocated(r))"],
    overrides=NODE_OVERRIDES,
    extra_names=dict(RUNNER_NAMES, bridged_results_len=BRL),
    raises={"AssertionError": "len(node.objects) == 0",
            "RuntimeError": None, "ParamNotFound": None, "ValueError": None},
    loops={0: {
        "invariants": [
            "implies(len(old(node.shared_results)) > 0, node.prefix == old(node.prefix) + 'r' + str(len(old(node.shared_results))))",
            "implies(len(old(node.shared_results)) == 0, node.prefix == old(node.prefix))",
            "len(node.results) == old(len(node.results)) + 1",
            "node.results[len(node.results) - 1] == node_result",
            "forall(range(0, old(len(node.results))), lambda k: node.results[k] == old(node.results)[k])",
            "node_result['status'] == 'UNKNOWN'",
            "implies(_i > 0, test_status == 'error')",
            "forall(self.job.result.tests, lambda t: t is not None and t['name'] is not None and t['status'] in DEFINITE)",
        ],
        "modifies": ["JobResultSet.tests", "JobResult.j_status", "JobResult.j_time", "JobResult.tid", "TestID.name", "TestID.uid"],
        "kinds": {"test_status": STR, "test_result": Ref("JobResult"), "job_result": Ref("Result"), "duration": REAL,
                  "max_allowed": REAL},
    }},
    ensures=[
        ("prefix_restored", "node.prefix == old(node.prefix)"),
        ("one_entry_added", "len(node.results) == old(len(node.results)) + 1 and "
                            "forall(range(0, old(len(node.results))), lambda k: node.results[k] == old(node.results)[k])"),
        ("own_result", "let(node.results[len(node.results) - 1], lambda e: e['name'] == node.params['name'] and "
                       f"(e['status'] == 'ERROR' or exists(self.job.result.tests, lambda t: {MATCH} and t['status'] == e['status'])))"),
        ("verdict", "let(node.results[len(node.results) - 1], lambda e: result == "
                    "(e['status'] != 'UNKNOWN' and e['status'].lower() not in ['error', 'fail']))"),
        ("definite", "let(node.results[len(node.results) - 1], lambda e: e['status'] != 'UNKNOWN')"),
    ],
    result_kind=BOOL,
    frame=["TestNode.prefix", "TestNode.results", "JobResultSet.tests", "JobResult.j_status", "JobResult.j_time",
           "JobResult.tid", "TestID.name", "TestID.uid", "Result.r_name", "Result.r_status"],
    props=["C02", "C03", "C10"],
    native_seams=["TestRunner.run_test_task", "asyncio.sleep"],
    assumes=["run_test_task / asyncio.sleep are suspension points: the job result list is append-only across them; "
             "results of this node are written only by the worker that runs it"],
)


# ---------------------------------------------------------------- all_results_ok (C10 verdict)
from pyvc.kinds import VDict  # noqa: E402
# avocado.core.teststatus.STATUSES_MAPPING (trusted copy of the dependency's table)
STATUSES_MAPPING = VDict({"SKIP": const(True), "ERROR": const(False), "FAIL": const(False), "WARN": const(True),
                          "PASS": const(True), "INTERRUPTED": const(False), "CANCEL": const(True)})
ACCEPT = "t['status'] in ['PASS', 'WARN', 'SKIP', 'CANCEL']"


def test_ok(x):
    return f"exists(self.job.result.tests, lambda t: t['name'].name == {x}['name'].name and {ACCEPT})"


def _accumulator(fn):
    import ast
    names = {n.target.id for n in ast.walk(fn) if isinstance(n, ast.AugAssign) and isinstance(n.target, ast.Name)}
    return names.pop() if len(names) == 1 else None


ALL_RESULTS_OK = Contract(
    target=f"{RUNNER}::TestRunner.all_results_ok",
    params={"self": Ref("TestRunner")},
    requires=["self.job is not None and self.job.result is not None",
              "forall(self.job.result.tests, lambda t: t is not None and t['name'] is not None and t['status'] in DEFINITE)"],
    extra_names=dict(RUNNER_NAMES, STATUSES_MAPPING=STATUSES_MAPPING),
    # the accumulator of the loop (`shared_status` today) is found by its role: the one name the loop body aug-assigns
    aliases={"shared_status": _accumulator},
    loops={0: {"invariants": ["shared_status", f"forall(range(0, _i), lambda j: {test_ok('self.job.result.tests[j]')})"],
               "kinds": {"shared_status": BOOL}}},
    ensures=[
        ("verdict", f"result == forall(self.job.result.tests, lambda x: {test_ok('x')})"),
    ],
    result_kind=BOOL,
    frame=[],
    props=["C10"],
    assumes=["STATUSES_MAPPING is avocado's table: PASS/WARN/SKIP/CANCEL acceptable, FAIL/ERROR/INTERRUPTED not"],
)
