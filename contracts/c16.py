"""C16 (counters half): EdgeRegister register / get_counters / get_workers are exact."""
import z3
from pyvc.kinds import V, STR, INT, BOOL, Ref, Seq, SetK, Map, NULL, RefSort
from pyvc.contract import Contract
from pyvc.contract import returned_local as _C_returned_local

NODE = "avocado_i2n/cartgraph/node.py"

bridged_form_fn = z3.Function("bridged_form", RefSort, z3.StringSort())


def bridged_form(eng, st, node, args, kw, astnode):
    """Summary of TestNode.bridged_form: a pure string-valued function of the node (its name parameters)."""
    yield st, V(STR, bridged_form_fn(node.term))


COUNT = "self._registry.get(f, {}).get(w, 0)"

Contract(
    target=f"{NODE}::EdgeRegister.register",
    params={"self": Ref("EdgeRegister"), "node": Ref("TestNode"), "worker": Ref("TestWorker")},
    overrides={"TestNode.bridged_form": bridged_form},
    stubs={"TestNode.bridged_form": (bridged_form_fn, "TestNode", STR, "property")},
    ensures=[
        ("counts_exact",
         f"forall([STR, STR], lambda f, w: ({COUNT}) == old({COUNT}) + (1 if f == node.bridged_form and w == worker.id else 0))"),
        ("registered_present", "node.bridged_form in self._registry and worker.id in self._registry[node.bridged_form]"),
        ("keys_only_grow", "forall(STR, lambda f: implies(old(f in self._registry), f in self._registry))"),
        ("no_other_node_key", "forall(STR, lambda f: implies(f in self._registry and f != node.bridged_form, old(f in self._registry)))"),
        ("other_registers_untouched", "forall(Ref('EdgeRegister'), lambda r: implies(r != self, r._registry == old(r._registry)))"),
    ],
    frame=["EdgeRegister._registry"],
    props=["C16", "C09"],
    extra_names={"STR": STR, "INT": INT},
    assumes=["TestNode.bridged_form is a pure function of the node (summary); strings are unicode sequences"],
)

IN_REG = "(f in self._registry and w in self._registry[f])"

Contract(
    target=f"{NODE}::EdgeRegister.get_workers",
    name="EdgeRegister.get_workers[node]",
    params={"self": Ref("EdgeRegister"), "node": Ref("TestNode")},
    overrides={"TestNode.bridged_form": bridged_form},
    stubs={"TestNode.bridged_form": (bridged_form_fn, "TestNode", STR, "property")},
    ensures=[
        ("exact", "forall(STR, lambda w: (w in result) == "
                  "(node.bridged_form in self._registry and w in self._registry[node.bridged_form]))"),
    ],
    frame=[],
    props=["C16"],
)

Contract(
    target=f"{NODE}::EdgeRegister.get_workers",
    name="EdgeRegister.get_workers[all]",
    params={"self": Ref("EdgeRegister")},
    aliases={"worker_keys": _C_returned_local},
    requires=["wf_map(self._registry)"],
    loops={0: {
        "invariants": ["forall(STR, lambda w: (w in worker_keys) == exists(range(0, _i), lambda j: "
                       "w in self._registry[keys_of(self._registry)[j]]))"],
        "kinds": {"worker_keys": SetK(STR)},
    }},
    ensures=[
        ("exact", f"forall(STR, lambda w: (w in result) == exists(STR, lambda f: {IN_REG}))"),
    ],
    frame=[],
    props=["C16"],
)


bridged_form.native = True      # replayed through the stub table of the witness
