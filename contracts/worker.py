"""C08 ('executed ... with that worker's connection parameters'): TestWorker.overwrite_with_slot and
TestWorker.get_session (avocado_i2n/cartgraph/worker.py).

get_session: the session handed out is the one cached for exactly this worker's address (host:port) if it is healthy,
otherwise a new login made with this worker's six connection parameters, cached under that address only.
remote.wait_for_login and the session health check are seams; a session is an opaque token (string)."""
import z3
from pyvc.kinds import V, STR, INT, BOOL, Ref, Seq, Map, NONE, VModule, VFunc, const, fresh
from pyvc.contract import Contract, seam_handler

WORKER = "avocado_i2n/cartgraph/worker.py"
import contracts.schema as _schema
_schema.SCHEMA.setdefault("RemoteSession", {"fields": {}})
SESSION = Ref("RemoteSession")
CACHE_KIND = Map(STR, SESSION)


def type_of_self(eng, st, args, kw, node):
    yield st, VModule("workercls")


def install_cache(eng, st, frame):
    c = V(CACHE_KIND, z3.Const("session_cache0", CACHE_KIND.sort()))
    eng.models.modules["workercls._session_cache"] = c
    st.ghost["cache0"] = c
    frame["cache0"] = c


def health_check(eng, st, recv, args, kw, node):
    bad = fresh(BOOL, "session.bad")
    st.ghost["health.bad"] = bad
    n = st.ghost.get("health.calls") or V(INT, z3.Const("health.calls0", z3.IntSort()))
    st.ghost["health.calls"] = V(INT, n.term + 1)
    for st1, b in eng.fork(st, bad.term, "session.bad"):
        if b:
            eng.raise_exc(st1, "ShellTimeoutError", node)
        else:
            yield st1, fresh(STR, "date")


def login(eng, st, recv, args, kw, node):
    """remote.wait_for_login: a new (non-null) session; the six arguments are recorded"""
    inner = seam_handler("login", SESSION)
    for st1, r in inner(eng, st, recv, args, kw, node):
        from pyvc.kinds import NULL
        st1.assume(r.term != NULL)
        yield st1, r


def get_logger(eng, st, recv, args, kw, node):
    yield st, VModule("logger")


_schema.SCHEMA["RemoteSession"]["methods"] = {"cmd_output": health_check}

ADDRESS = "(self.params['nets_shell_host'] + ':' + self.params['nets_shell_port'])"
LOGIN_ARGS = " and ".join(f"ghost('login.arg{i}', STR) == self.params['{k}']" for i, k in enumerate(
    ["nets_shell_client", "nets_shell_host", "nets_shell_port", "nets_username", "nets_password", "nets_shell_prompt"]))
def _cache_alias(fn):
    import ast
    names = [n.targets[0].id for n in ast.walk(fn) if isinstance(n, ast.Assign) and len(n.targets) == 1
             and isinstance(n.targets[0], ast.Name) and ast.unparse(n.value).endswith("._session_cache")]
    return names[0] if len(names) == 1 else None


GET_SESSION = Contract(
    target=f"{WORKER}::TestWorker.get_session", params={"self": Ref("TestWorker")}, setup=install_cache,
    # the local alias of the class-level cache (`cache` today) is found by what it is assigned from
    aliases={"cache": _cache_alias},
    requires=["wf_map(cache0)", "forall(STR, lambda a: implies(a in cache0, cache0[a] is not None))"],
    overrides={"remote.wait_for_login": login, "log.getLogger": get_logger},
    extra_names={"type": VFunc("handler", fn=type_of_self, name="type"), "ShellTimeoutError": None},
    raises={"ParamNotFound": None, "KeyError": None},
    ensures=[
        ("healthy_cached_session_is_reused", f"implies({ADDRESS} in cache0 and ghost('health.calls') != old(ghost('health.calls')) "
                                             f"and not ghost('health.bad'), result == cache0[{ADDRESS}] and "
                                             f"ghost('login.calls') == old(ghost('login.calls')))"),
        ("otherwise_login_with_own_parameters", f"implies({ADDRESS} not in cache0 or ghost('health.bad'), "
                                                f"ghost('login.calls') == old(ghost('login.calls')) + 1 and {LOGIN_ARGS} and "
                                                f"result == ghost('login.result', Ref('RemoteSession')))"),
        ("only_own_address_is_cached", f"forall(STR, lambda a: implies(a != {ADDRESS}, (a in cache) == (a in cache0) and "
                                       f"implies(a in cache, cache[a] == cache0[a])))"),
        ("never_a_session_of_another_address", f"result == cache[{ADDRESS}] or ({ADDRESS} in cache0 and result == cache0[{ADDRESS}])"),
    ],
    result_kind=SESSION, frame=[], props=["C08"],
    assumes=["a session is an opaque object; cached sessions are not None; the class-level cache is modelled by the local "
             "alias `cache` (dict value semantics)"],
)


# ---------------------------------------------------------------- overwrite_with_slot: slot string -> connection parameters
P = "self.params"
PARTS = "slot.split('/')"
KEYS = ["nets_gateway", "nets_host", "nets_spawner", "nets_shell_host", "nets_shell_port"]
OTHERS = ("forall(STR, lambda k: implies(k not in " + repr(KEYS) + ", (k in self.params) == old(k in self.params) and "
          "implies(k in self.params, self.params[k] == old(self.params[k]))))")


def params_are(gw, host, spawner, ip, port):
    return (f"{P}['nets_gateway'] == {gw} and {P}['nets_host'] == {host} and {P}['nets_spawner'] == {spawner} and "
            f"{P}['nets_shell_host'] == {ip} and {P}['nets_shell_port'] == {port}")


OVERWRITE_WITH_SLOT = Contract(
    target=f"{WORKER}::TestWorker.overwrite_with_slot", params={"self": Ref("TestWorker"), "slot": STR},
    raises={"RuntimeError": f"len({PARTS}) == 2 and not {PARTS}[1].isdigit()",
            "ValueError": f"len({PARTS}) > 2", "ParamNotFound": None},
    ensures=[
        ("serial_run_without_slot", f"implies(len({PARTS}) == 1 and {PARTS}[0] == '', "
                                    + params_are("''", "''", "'process'", "'localhost'", "old(self.params['nets_shell_port'])") + ")"),
        ("local_container", f"implies(len({PARTS}) == 1 and {PARTS}[0] != '', "
                            + params_are("''", f"'c' + {PARTS}[0]", "'lxc'",
                                         f"old(self.params['nets_ip_prefix']) + '.' + {PARTS}[0]",
                                         "old(self.params['nets_shell_port'])") + ")"),
        ("remote_host_behind_gateway", f"implies(len({PARTS}) == 2, "
                                       + params_are(f"{PARTS}[0]", f"{PARTS}[1]", "'remote'", f"{PARTS}[0]", f"'22' + {PARTS}[1]") + ")"),
        ("only_connection_parameters_change", OTHERS),
    ],
    frame=["Params.p_has", "Params.p_val"], props=["C08"],
    assumes=["str.split('/') is uninterpreted (a non-empty list of strings)"],
)


# ---------------------------------------------------------------- the worker's connection parameters reach the parsed net (C08)
import ast                                                                        # noqa: E402
GRAPHF = "avocado_i2n/cartgraph/graph.py"


def net_params_block(fn):
    for n in ast.walk(fn):
        for field in ("body", "orelse"):
            stmts = getattr(n, field, None)
            if not isinstance(stmts, list):
                continue
            for i, s in enumerate(stmts[:-1]):
                if isinstance(s, ast.Assign) and ast.unparse(s.targets[0]) == "setup_dict" and \
                        ast.unparse(stmts[i + 1]).startswith("setup_dict.update(") and "nets_" in ast.unparse(stmts[i + 1]):
                    return [s, stmts[i + 1]]
    return []


NET_PARAMS = Contract(
    target=f"{GRAPHF}::TestGraph.get_and_parse_objects_for_node_and_object", name="TestGraph.get_and_parse_objects_for_node_and_object#net_params",
    block=("net_params", net_params_block),
    params={"params": (Ref("Params"), "nullable"), "test_object": Ref("TestObject")},
    requires=["test_object.params != params"],
    outputs={"setup_dict": Ref("Params")},
    ensures=[
        # every connection parameter of the worker's net - also an explicitly empty one - is handed to the parsed net
        ("all_connection_parameters_forwarded", "forall(STR, lambda k: implies(k.startswith('nets_') and k in test_object.params, "
                                                "k in setup_dict and setup_dict[k] == test_object.params[k]))"),
        ("runtime_parameters_kept", "implies(params is not None, forall(STR, lambda k: implies(k in params and not "
                                    "(k.startswith('nets_') and k in test_object.params), k in setup_dict and setup_dict[k] == params[k])))"),
        ("nothing_else_added", "forall(STR, lambda k: implies(k in setup_dict, (params is not None and k in params) or "
                               "(k.startswith('nets_') and k in test_object.params)))"),
    ],
    frame=["Params.p_has", "Params.p_val"], props=["C08"],
    assumes=["extracted block: the two statements that build the parameters a new composite net is parsed with"],
)
