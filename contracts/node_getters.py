"""Contracts of the TestNode getters shared by several properties (C03, C04, C05, C08, C10)."""
import z3
from pyvc.kinds import safe_forall, V, STR, INT, BOOL, Ref, Seq, SetK, Map, NULL, RefSort, const
from pyvc.contract import Contract, contract_handler
from pyvc.contract import returned_local, accumulator, first_assigned_constant

NODE = "avocado_i2n/cartgraph/node.py"
W = 'Ref("TestWorker")'

WF_BRIDGED = "forall(self._bridged_nodes, lambda b: b is not None)"

# ---------------------------------------------------------------- shared_started_workers / shared_finished_workers
def _shared_workers(field, name):
    return Contract(
        target=f"{NODE}::TestNode.{name}",
        params={"self": Ref("TestNode")},
        requires=[WF_BRIDGED],
        aliases={"workers": returned_local},      # the set under construction is the one that is returned
        loops={0: {
            "invariants": [
                f"forall({W}, lambda w: (w in workers) == (w is not None and (self.{field} == w or "
                f"exists(range(0, _i), lambda j: self._bridged_nodes[j].{field} == w))))"],
            "kinds": {"workers": SetK(Ref("TestWorker"))},
        }},
        ensures=[
            ("exact", f"forall({W}, lambda w: (w in result) == (w is not None and (self.{field} == w or "
                      f"exists(range(0, len(self._bridged_nodes)), lambda j: self._bridged_nodes[j].{field} == w))))"),
        ],
        result_kind=SetK(Ref("TestWorker")),
        frame=[],
        props=["C04", "C03"],
    )


SSW = _shared_workers("started_worker", "shared_started_workers")
SFW = _shared_workers("finished_worker", "shared_finished_workers")

from contracts.c16 import bridged_form, bridged_form_fn  # noqa: E402
import pyvc.contract as _C  # noqa: E402

GET_WORKERS_ALL = [c for c in _C.REGISTRY if c.name == "EdgeRegister.get_workers[all]"][0]
GET_WORKERS_ALL.result_kind = SetK(STR)
GET_WORKERS_NODE = [c for c in _C.REGISTRY if c.name == "EdgeRegister.get_workers[node]"][0]
GET_WORKERS_NODE.result_kind = SetK(STR)


def get_workers_by_contract(eng, st, recv, args, kw, node):
    """EdgeRegister.get_workers at a call site: use the contract proved in contracts/c16.py."""
    from pyvc.kinds import VNone
    if args and not isinstance(args[0], VNone):
        yield from contract_handler(GET_WORKERS_NODE)(eng, st, recv, args, kw, node)
    else:
        yield from contract_handler(GET_WORKERS_ALL)(eng, st, recv, [], kw, node)


REGISTERS = ["_picked_by_setup_nodes", "_picked_by_cleanup_nodes", "_dropped_setup_nodes", "_dropped_cleanup_nodes"]
WF_REGISTERS = [f"self.{r} is not None and wf_map(self.{r}._registry)" for r in REGISTERS]

IN_SWARM = "exists(STR, lambda s: s in TestSwarm.run_swarms and TestSwarm.run_swarms[s] is not None and w in TestSwarm.run_swarms[s].workers)"
PICKED_ID = ("(exists(STR, lambda f: f in self._picked_by_setup_nodes._registry and w.id in self._picked_by_setup_nodes._registry[f])"
             " or exists(STR, lambda f: f in self._picked_by_cleanup_nodes._registry and w.id in self._picked_by_cleanup_nodes._registry[f]))")

WF_SWARMS = ("forall(STR, lambda s: implies(s in TestSwarm.run_swarms, TestSwarm.run_swarms[s] is not None and "
             "forall(TestSwarm.run_swarms[s].workers, lambda w: w is not None)))")

SIW = Contract(
    target=f"{NODE}::TestNode.shared_involved_workers",
    params={"self": Ref("TestNode")},
    requires=WF_REGISTERS[:2] + [WF_SWARMS, "wf_map(TestSwarm.run_swarms)"],
    overrides={"EdgeRegister.get_workers": get_workers_by_contract},
    ensures=[
        ("exact", f"forall({W}, lambda w: (w in result) == (w is not None and {IN_SWARM} and {PICKED_ID}))"),
    ],
    result_kind=SetK(Ref("TestWorker")),
    frame=[],
    props=["C04", "C03", "C05"],
)


# ---------------------------------------------------------------- is_started / is_finished / is_occupied
def by_contract(c):
    return contract_handler(c)


GETTER_OVERRIDES = {
    "TestNode.shared_started_workers": by_contract(SSW),
    "TestNode.shared_finished_workers": by_contract(SFW),
    "TestNode.shared_involved_workers": by_contract(SIW),
    "EdgeRegister.get_workers": get_workers_by_contract,
}

WF_NODE = [WF_BRIDGED] + WF_REGISTERS[:2] + [WF_SWARMS, "wf_map(TestSwarm.run_swarms)"]

FLAT = "len(self.objects) == 0"
SELF_SCOPE = "(worker is not None and 'swarm' not in self.params['pool_scope'] and self.params.get('nets_spawner') == 'lxc')"
SWARM_SCOPE = "(worker is not None and 'cluster' not in self.params['pool_scope'] and self.params.get('nets_spawner') == 'remote')"


def _threshold_contract(name, getter, flat_result, props):
    own = f"{{w for w in self.{getter} if w.swarm_id == worker.swarm_id}}"
    allh = "(self.shared_involved_workers & {*TestSwarm.run_swarms[worker.swarm_id].workers})"
    return Contract(
        target=f"{NODE}::TestNode.{name}",
        params={"self": Ref("TestNode"), "worker": (Ref("TestWorker"), "nullable"), "threshold": INT},
        requires=WF_NODE,
        overrides=GETTER_OVERRIDES,
        raises={
            "ParamNotFound": f"not ({FLAT}) and worker is not None and 'pool_scope' not in self.params",
            "KeyError": f"not ({FLAT}) and not {SELF_SCOPE} and {SWARM_SCOPE} and threshold == -1 "
                        f"and worker.swarm_id not in TestSwarm.run_swarms",
        },
        ensures=[
            ("flat", f"implies({FLAT}, result == {flat_result})"),
            ("self_scope", f"implies(not ({FLAT}) and {SELF_SCOPE}, result == (worker in self.{getter}))"),
            ("swarm_scope_all", f"implies(not ({FLAT}) and not {SELF_SCOPE} and {SWARM_SCOPE} and threshold == -1, "
                                f"result == ({own} == {allh}))"),
            ("swarm_scope_n", f"implies(not ({FLAT}) and not {SELF_SCOPE} and {SWARM_SCOPE} and threshold != -1, "
                              f"result == (len({own}) >= threshold))"),
            ("global_all", f"implies(not ({FLAT}) and not {SELF_SCOPE} and not {SWARM_SCOPE} and threshold == -1, "
                           f"result == (self.{getter} == self.shared_involved_workers))"),
            ("global_n", f"implies(not ({FLAT}) and not {SELF_SCOPE} and not {SWARM_SCOPE} and threshold != -1, "
                         f"result == (len(self.{getter}) >= threshold))"),
        ],
        result_kind=BOOL,
        frame=[],
        props=props,
    )


IS_STARTED = _threshold_contract("is_started", "shared_started_workers", "False", ["C04"])
IS_FINISHED = _threshold_contract("is_finished", "shared_finished_workers", "True", ["C03", "C05", "C01"])


# ---------------------------------------------------------------- shared_results and friends
from pyvc.kinds import VFunc, list_sort  # noqa: E402

_RES_ARR = z3.ArraySort(RefSort, Seq(Ref("Result")).sort())
prefix_reslen = z3.Function("prefix_reslen", _RES_ARR, Seq(Ref("TestNode")).sort(), z3.IntSort(), z3.IntSort())


def _prefix_reslen_axioms():
    R = z3.Const("ax_R", _RES_ARR)
    B = z3.Const("ax_B", Seq(Ref("TestNode")).sort())
    i = z3.Const("ax_i", z3.IntSort())
    LN, LR = Seq(Ref("TestNode")), Seq(Ref("Result"))
    return [
        safe_forall([R, B], prefix_reslen(R, B, 0) == 0, patterns=[prefix_reslen(R, B, 0)]),
        safe_forall([R, B, i], z3.Implies(i >= 0, prefix_reslen(R, B, i + 1) ==
                                        prefix_reslen(R, B, i) + LR.len(z3.Select(R, LN.at(B, i)))),
                  patterns=[prefix_reslen(R, B, i + 1)]),
        safe_forall([R, B, i], z3.Implies(i >= 0, prefix_reslen(R, B, i) >= 0), patterns=[prefix_reslen(R, B, i)]),
    ]


def bridged_results_len(eng, st, args, kw, node):
    """Spec function: total number of results of the first i bridged nodes of a node (current heap)."""
    n, i = args
    R = eng.heap_array(st, "TestNode", "results", Seq(Ref("Result")))
    B = eng.read_field(st, n, "TestNode", "_bridged_nodes", Seq(Ref("TestNode")))
    for ax in _prefix_reslen_axioms():
        if ax.get_id() not in st.facts:
            st.assume(ax)
    yield st, V(INT, prefix_reslen(R, B.term, i.term))


BRL = VFunc("handler", fn=bridged_results_len, name="bridged_results_len")
RES = 'Ref("Result")'

def _accumulator(fn):
    import ast
    names = {n.target.id for n in ast.walk(fn) if isinstance(n, ast.AugAssign) and isinstance(n.target, ast.Name)}
    return names.pop() if len(names) == 1 else None


SHARED_RESULTS = Contract(
    target=f"{NODE}::TestNode.shared_results",
    # the accumulated list (`results` today) is found by its role: the one name the loop aug-assigns
    aliases={"results": accumulator},
    params={"self": Ref("TestNode")},
    requires=[WF_BRIDGED],
    extra_names={"bridged_results_len": BRL},
    loops={0: {
        "invariants": [
            "len(results) == len(self.results) + bridged_results_len(self, _i)",
            f"forall({RES}, lambda r: implies(r in results, r in self.results or "
            "exists(range(0, _i), lambda j: r in self._bridged_nodes[j].results)))",
            f"forall({RES}, lambda r: implies(r in self.results, r in results))",
            f"forall([INT, {RES}], lambda j, r: implies(0 <= j and j < _i and r in self._bridged_nodes[j].results, r in results))",
            "forall(range(0, len(self.results)), lambda k: results[k] == self.results[k])",
            "len(results) >= len(self.results)",
        ],
    }},
    ensures=[
        ("length", "len(result) == len(self.results) + bridged_results_len(self, len(self._bridged_nodes))"),
        ("members_only", f"forall({RES}, lambda r: implies(r in result, r in self.results or "
                         "exists(range(0, len(self._bridged_nodes)), lambda j: r in self._bridged_nodes[j].results)))"),
        ("members_own", f"forall({RES}, lambda r: implies(r in self.results, r in result))"),
        ("members_bridged", f"forall([INT, {RES}], lambda j, r: implies(0 <= j and j < len(self._bridged_nodes) and "
                            "r in self._bridged_nodes[j].results, r in result))"),
        ("own_first", "forall(range(0, len(self.results)), lambda k: result[k] == self.results[k])"),
    ],
    result_kind=Seq(Ref("Result")),
    frame=[],
    props=["C03", "C10"],
)


# ---------------------------------------------------------------- shared_filtered_results
_NAME_ARR = z3.ArraySort(RefSort, z3.StringSort())
prefix_filtlen = z3.Function("prefix_filtlen", _NAME_ARR, Seq(Ref("Result")).sort(), z3.StringSort(), z3.IntSort(), z3.IntSort())


def _prefix_filtlen_axioms():
    N = z3.Const("ax_N", _NAME_ARR)
    L = z3.Const("ax_L", Seq(Ref("Result")).sort())
    f = z3.Const("ax_f", z3.StringSort())
    i = z3.Const("ax_i", z3.IntSort())
    LR = Seq(Ref("Result"))
    return [
        safe_forall([N, L, f], prefix_filtlen(N, L, f, 0) == 0, patterns=[prefix_filtlen(N, L, f, 0)]),
        safe_forall([N, L, f, i], z3.Implies(i >= 0, prefix_filtlen(N, L, f, i + 1) == prefix_filtlen(N, L, f, i) +
                                           z3.If(z3.Contains(z3.Select(N, LR.at(L, i)), f), 1, 0)),
                  patterns=[prefix_filtlen(N, L, f, i + 1)]),
        safe_forall([N, L, f, i], z3.Implies(i >= 0, z3.And(prefix_filtlen(N, L, f, i) >= 0, prefix_filtlen(N, L, f, i) <= i)),
                  patterns=[prefix_filtlen(N, L, f, i)]),
    ]


def filtered_len(eng, st, args, kw, node):
    """Spec function: number of results among the first i of a list whose name contains the filter."""
    lst, flt, i = args
    N = eng.heap_array(st, "Result", "r_name", STR)
    for ax in _prefix_filtlen_axioms():
        if ax.get_id() not in st.facts:
            st.assume(ax)
    yield st, V(INT, prefix_filtlen(N, lst.term, flt.term, i.term))


FLEN = VFunc("handler", fn=filtered_len, name="filtered_len")

LXC_OWN = "(self.started_worker is not None and 'swarm' not in self.params['pool_scope'] and self.params.get('nets_spawner') == 'lxc')"
REMOTE_OWN = "(self.started_worker is not None and 'cluster' not in self.params['pool_scope'] and self.params.get('nets_spawner') == 'remote')"
SCOPE_FILTER = (f"((self.started_worker.swarm_id + '.' + self.started_worker.id) if {LXC_OWN} else "
                f"(self.started_worker.swarm_id if {REMOTE_OWN} else ''))")

WF_RESULTS = "forall(self.shared_results, lambda r: r is not None)"

SHARED_FILTERED = Contract(
    target=f"{NODE}::TestNode.shared_filtered_results",
    params={"self": Ref("TestNode")},
    requires=[WF_BRIDGED, WF_RESULTS],
    overrides={"TestNode.shared_results": by_contract(SHARED_RESULTS)},
    extra_names={"filtered_len": FLEN, "bridged_results_len": BRL},
    raises={"ParamNotFound": "self.started_worker is not None and 'pool_scope' not in self.params"},
    loops={0: {
        "invariants": [
            "len(results) == filtered_len(all_results, scope_filter, _i)",
            f"forall({RES}, lambda r: implies(r in results, r in all_results and scope_filter in r['name']))",
            "forall(range(0, _i), lambda j: implies(scope_filter in all_results[j]['name'], all_results[j] in results))",
        ],
        "kinds": {"results": Seq(Ref("Result"))},
    }},
    ensures=[
        ("length", f"len(result) == filtered_len(self.shared_results, {SCOPE_FILTER}, len(self.shared_results))"),
        ("members_only", f"forall({RES}, lambda r: implies(r in result, r in self.shared_results and {SCOPE_FILTER} in r['name']))"),
        ("members_all", f"forall(self.shared_results, lambda r: implies({SCOPE_FILTER} in r['name'], r in result))"),
    ],
    result_kind=Seq(Ref("Result")),
    frame=[],
    props=["C03", "C10"],
)


# ---------------------------------------------------------------- get_stateful_objects
OBJ = 'Ref("TestObject")'
WF_OBJECTS = "forall(self.objects, lambda o: o is not None and forall(o.composites, lambda c: c is not None))"


def stateful(o, do="do"):
    return f"bool({o}.object_typed_params(self.params).get({do} + '_state'))"


STATEFUL_OBJECTS = Contract(
    target=f"{NODE}::TestNode.get_stateful_objects",
    aliases={"setup_objects": returned_local},
    params={"self": Ref("TestNode"), "do": const("set")},    # every call site uses the default do="set"
    requires=[WF_OBJECTS],
    loops={0: {
        "invariants": [
            f"forall({OBJ}, lambda o: implies(o in setup_objects, o in self.objects and {stateful('o')}))",
            f"forall(range(0, _i), lambda j: implies({stateful('self.objects[j]')}, self.objects[j] in setup_objects))",
            "len(setup_objects) <= _i",
        ],
        "kinds": {"setup_objects": Seq(Ref("TestObject"))},
    }},
    ensures=[
        ("members_only", f"forall({OBJ}, lambda o: implies(o in result, o in self.objects and {stateful('o')}))"),
        ("members_all", f"forall(self.objects, lambda o: implies({stateful('o')}, o in result))"),
        ("empty_iff", f"(len(result) == 0) == forall(self.objects, lambda o: not {stateful('o')})"),
    ],
    result_kind=Seq(Ref("TestObject")),
    frame=[],
    props=["C03", "C10", "C05"],
)


# ---------------------------------------------------------------- shared_result_worker_ids (C01, C08)
ALL_IDS = "[w.id for s in TestSwarm.run_swarms.values() for w in s.workers]"
IS_WORKER_ID = ("exists(STR, lambda s: s in TestSwarm.run_swarms and exists(TestSwarm.run_swarms[s].workers, "
                "lambda w: w.id == wid))")


def produced(upto):
    return (f"exists(range(0, {upto}), lambda j: self.shared_results[j]['status'] == 'PASS' and "
            f"wid in self.shared_results[j]['name'])")


RESULT_WORKER_IDS = Contract(
    target=f"{NODE}::TestNode.shared_result_worker_ids",
    aliases={"workers": returned_local},
    params={"self": Ref("TestNode")},
    requires=[WF_BRIDGED, WF_RESULTS, WF_SWARMS, "wf_map(TestSwarm.run_swarms)"],
    overrides={"TestNode.shared_results": by_contract(SHARED_RESULTS)},
    extra_names={"bridged_results_len": BRL},
    loops={
        0: {"invariants": [f"forall(STR, lambda wid: implies(wid in workers, {IS_WORKER_ID} and {produced('_i')}))"],
            "kinds": {"workers": SetK(STR), "worker_ids": Seq(STR), "worker_id": STR}},
        1: {"invariants": [f"forall(STR, lambda wid: implies(wid in workers, {IS_WORKER_ID} and {produced('_i0')}))",
                           "forall(range(0, _i), lambda k: worker_ids[k] not in result['name'])"],
            "kinds": {"workers": SetK(STR)}},
    },
    ensures=[
        ("only_producers", f"forall(STR, lambda wid: implies(wid in result, {IS_WORKER_ID} and "
                           f"{produced('len(self.shared_results)')}))"),
    ],
    result_kind=SetK(STR),
    frame=[],
    props=["C08", "C01"],
)


# handlers with a faithful native counterpart (the real method / the stubbed property) for the native cross-check
get_workers_by_contract.native = True
