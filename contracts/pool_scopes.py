"""C13: scope classification and the per-source step of the pool back ends (avocado_i2n/states/pool.py).

get_source_scope is verified whole.  show/get/set/unset of SourcedStateBackend walk the configured sources (ordered by
get_sources) and apply one step per source; the step - the body of `for source in sources` - is extracted
mechanically from the real source on every run and verified: a source is contacted only if its scope is enabled (and
never the own pool), saving/removing reaches every permitted mirror, fetching stops at the first permitted source and
downloads only when the pool has the state and the local copy is missing or differs.
What the extraction drops: the ordering of the sources (get_sources/proximity: bounded stand-in pool_ops) and the
statements around the loop (cache handling with the `own` scope).
"""
import ast
import z3
from pyvc.kinds import V, STR, INT, BOOL, Ref, Seq, SetK, NONE, VClass, VModule, VFunc, const, fresh
from pyvc.contract import Contract, seam_handler

POOL = "avocado_i2n/states/pool.py"
CLS = "SourcedStateBackend"

SCOPE_OF = ("('cluster' if own_params['nets_gateway'] != source_params['nets_gateway'] else "
            "('swarm' if own_params['nets_host'] != source_params['nets_host'] else "
            "('shared' if own_params['shared_pool'].lstrip(':') == source_path else "
            "('own' if own_params['swarm_pool'] == source_path else 'shared'))))")

GET_SOURCE_SCOPE = Contract(
    target=f"{POOL}::{CLS}.get_source_scope",
    params={"cls": VClass(CLS), "source_path": STR, "source_params": Ref("Params"), "own_params": Ref("Params")},
    raises={"ParamNotFound": None},
    ensures=[
        ("scope_table", f"result == {SCOPE_OF}"),
        ("one_of_four", "result in ['own', 'swarm', 'cluster', 'shared']"),
        ("own_only_same_host_own_pool", "implies(result == 'own', own_params['nets_gateway'] == source_params['nets_gateway'] and "
                                        "own_params['nets_host'] == source_params['nets_host'] and source_path == own_params['swarm_pool'])"),
        ("other_gateway_is_cluster", "implies(own_params['nets_gateway'] != source_params['nets_gateway'], result == 'cluster')"),
        ("other_host_same_gateway_is_swarm", "implies(own_params['nets_gateway'] == source_params['nets_gateway'] and "
                                             "own_params['nets_host'] != source_params['nets_host'], result == 'swarm')"),
    ],
    result_kind=STR, frame=[], props=["C13"],
)


def source_loop(fn):
    loops = [n for n in ast.walk(fn) if isinstance(n, ast.For) and isinstance(n.target, ast.Name) and n.target.id == "source"]
    return loops[0].body if len(loops) == 1 else []


TRANSPORT_OPS = ["t_show", "t_get", "t_set", "t_unset", "t_compare"]
OVERRIDES = {
    "QCOW2ImageTransfer.show": seam_handler("t_show", Seq(STR)),
    "QCOW2ImageTransfer.get": seam_handler("t_get", None),
    "QCOW2ImageTransfer.set": seam_handler("t_set", None),
    "QCOW2ImageTransfer.unset": seam_handler("t_unset", None),
    "QCOW2ImageTransfer.compare_chain": seam_handler("t_compare", BOOL),
    f"{CLS}._show": seam_handler("local_show", Seq(STR)),
}


def calls(op): return f"ghost('{op}.calls')"                                   # noqa: E704
def same(op): return f"{calls(op)} == old({calls(op)})"                        # noqa: E704
def once(op): return f"{calls(op)} == old({calls(op)}) + 1"                    # noqa: E704
def none_of(ops): return " and ".join(same(o) for o in ops)                    # noqa: E704


SPLIT_OK = "len(source.split(':')) == 2"
NET = "source.split(':')[0]"
PATH = "source.split(':')[1]"
# parameters the source is judged by: those of the named net, or the own ones for a net-less (local) source
SRC_PARAMS = f"(params.object_params({NET}) if {NET} else params)"
SCOPE = (f"('cluster' if params['nets_gateway'] != {SRC_PARAMS}['nets_gateway'] else "
         f"('swarm' if params['nets_host'] != {SRC_PARAMS}['nets_host'] else "
         f"('shared' if params['shared_pool'].lstrip(':') == {PATH} else "
         f"('own' if params['swarm_pool'] == {PATH} else 'shared'))))")
PERMITTED = f"old({SCOPE} != 'own' and {SCOPE} in scopes)"


def step(do, params_extra, ensures, outputs=None):
    p = {"cls": VClass(CLS), "params": Ref("Params"), "object": NONE, "source": STR, "scopes": Seq(STR)}
    p.update(params_extra)
    return Contract(
        target=f"{POOL}::{CLS}.{do}", name=f"{CLS}.{do}#source_step",
        block=("source_step", source_loop), params=p,
        requires=[SPLIT_OK], overrides=OVERRIDES,
        raises={"ParamNotFound": None, "KeyError": None},
        ensures=ensures, outputs=outputs or {},
        frame=["Params.p_has", "Params.p_val"], props=["C13"],
        assumes=["extracted block: the ordering of the sources and the statements around the loop are not part of this contract",
                 "transport operations are seams (call log); the source string has the form '<net>:<path>'"])


def location_arg(op, do):
    return (f"ghost('{op}.arg1', Ref('Params'))['{do}_location'] == source")


SET_STEP = step("set", {}, [
    ("mirror_reached_iff_permitted", f"ite({PERMITTED}, {once('t_set')} and {location_arg('t_set', 'set')}, {same('t_set')})"),
    ("nothing_else_contacted", none_of(["t_show", "t_get", "t_unset", "t_compare"])),
    ("own_params_untouched", "forall(STR, lambda k: (k in params) == old(k in params) and implies(k in params, params[k] == old(params[k])))"),
])
UNSET_STEP = step("unset", {}, [
    ("mirror_reached_iff_permitted", f"ite({PERMITTED}, {once('t_unset')} and {location_arg('t_unset', 'unset')}, {same('t_unset')})"),
    ("nothing_else_contacted", none_of(["t_show", "t_get", "t_set", "t_compare"])),
    ("own_params_untouched", "forall(STR, lambda k: (k in params) == old(k in params) and implies(k in params, params[k] == old(params[k])))"),
])
POOL_HAS = "(old(params['get_state']) in ghost('t_show.result', SeqOf(STR)))"
LOCAL_HAS = "(old(params['get_state']) in ghost('local_show.result', SeqOf(STR)))"
GET_STEP = step("get", {}, [
    ("not_permitted_not_contacted", f"implies(not {PERMITTED}, flow == 'continue' and {none_of(TRANSPORT_OPS)} and {same('local_show')})"),
    ("first_permitted_source_ends_search", f"implies({PERMITTED}, flow == 'break' and {once('t_show')})"),
    ("download_iff_present_and_cache_stale", f"implies({PERMITTED}, ite({POOL_HAS} and (not {LOCAL_HAS} or not ghost('t_compare.result')), "
                                             f"{once('t_get')} and {location_arg('t_get', 'get')}, {same('t_get')}))"),
    ("compare_only_when_both_have_it", f"implies({PERMITTED}, ite({POOL_HAS} and {LOCAL_HAS}, {once('t_compare')}, {same('t_compare')}))"),
    ("never_saves_or_removes", none_of(["t_set", "t_unset"])),
])
SHOW_STEP = step("show", {"pool_states": SetK(STR)}, [
    ("not_permitted_not_contacted", f"implies(not {PERMITTED}, {none_of(TRANSPORT_OPS)} and pool_states == old(pool_states))"),
    ("permitted_listed_once", f"implies({PERMITTED}, {once('t_show')} and {location_arg('t_show', 'show')})"),
    ("states_narrowed_to_common", f"implies({PERMITTED}, forall(STR, lambda s: (s in pool_states) == "
                                  f"(s in ghost('t_show.result', SeqOf(STR)) and (s in old(pool_states) or len(old(pool_states)) == 0))))"),
    ("never_transfers", none_of(["t_get", "t_set", "t_unset", "t_compare"])),
])


# ---------------------------------------------------------------- proximity score used to order the sources (closest first)
def proximity_body(fn):
    inner = [n for n in ast.walk(fn) if isinstance(n, ast.FunctionDef) and n.name == "proximity"]
    return inner[0].body if len(inner) == 1 else []


PROXIMITY = Contract(
    target=f"{POOL}::{CLS}.get_sources", name=f"{CLS}.get_sources#proximity",
    block=("proximity", proximity_body),
    params={"source": STR, "params": Ref("Params")},
    requires=[SPLIT_OK], raises={"ParamNotFound": None, "KeyError": None},
    ensures=[
        # the score orders the sources by scope: own >= shared (same host) > swarm (same gateway) > cluster
        ("own_scores_highest", f"implies({SCOPE} == 'own', result == 1110)"),
        ("shared_next", f"implies({SCOPE} == 'shared', 1101 <= result and result <= 1110)"),
        ("swarm_below_shared", f"implies({SCOPE} == 'swarm', 1001 <= result and result <= 1010)"),
        ("cluster_lowest", f"implies({SCOPE} == 'cluster', 1 <= result and result <= 110)"),
        ("bands_are_ordered", "1110 >= 1101 and 1101 > 1010 and 1001 > 110"),
    ],
    result_kind=INT, frame=[], props=["C13"],
    assumes=["extracted block: body of the nested key function; that sorted(..., key=proximity, reverse=True) orders by this "
             "key is Python's semantics (trusted), checked end to end by the bounded stand-in pool_ops"],
)


# ---------------------------------------------------------------- root states through the pools (RootSourcedStateBackend)
RCLS = "RootSourcedStateBackend"
ROOT_OVERRIDES = {
    f"{RCLS}._check_root": seam_handler("local_check_root", BOOL),
    f"{RCLS}._get_root": seam_handler("local_get_root", None),
    f"{RCLS}._set_root": seam_handler("local_set_root", None),
    f"{RCLS}._unset_root": seam_handler("local_unset_root", None),
    "QCOW2ImageTransfer.check_root": seam_handler("pool_check_root", BOOL),
    "QCOW2ImageTransfer.get_root": seam_handler("pool_get_root", None),
    "QCOW2ImageTransfer.set_root": seam_handler("pool_set_root", None),
    "QCOW2ImageTransfer.unset_root": seam_handler("pool_unset_root", None),
}
ROOT_PARAMS = {"cls": VClass(RCLS), "params": Ref("Params"), "object": NONE}
SCOPE_P = "old(params['pool_scope'])"
ROOT_SEAMS = ["local_get_root", "local_set_root", "local_unset_root", "pool_get_root", "pool_set_root", "pool_unset_root"]


def only_root(op):
    return f"{once(op)} and {none_of([o for o in ROOT_SEAMS if o != op])}"


SET_ROOT = Contract(
    target=f"{POOL}::{RCLS}.set_root", params=ROOT_PARAMS, overrides=ROOT_OVERRIDES,
    raises={"ParamNotFound": "'pool_scope' not in params", "RuntimeError": None},
    ensures=[
        ("own_scope_sets_locally", f"implies({SCOPE_P} == 'own', {only_root('local_set_root')} and {same('pool_check_root')})"),
        ("shared_scope_updates_pool_from_local_root", f"implies({SCOPE_P} == 'shared', {only_root('pool_set_root')} and "
                                                      f"ghost('local_check_root.result') == True)"),
        ("other_scopes_never_return", f"{SCOPE_P} == 'own' or {SCOPE_P} == 'shared'"),
    ],
    exc_ensures=[
        ("refusal_alters_nothing", f"implies(exc == 'RuntimeError', {none_of(ROOT_SEAMS)})"),
        ("refused_only_without_local_root_or_bad_scope", f"implies(exc == 'RuntimeError', "
                                                         f"({SCOPE_P} == 'shared' and ghost('local_check_root.result') == False) or "
                                                         f"({SCOPE_P} != 'own' and {SCOPE_P} != 'shared'))"),
    ],
    frame=[], props=["C13"],
)
UNSET_ROOT = Contract(
    target=f"{POOL}::{RCLS}.unset_root", params=ROOT_PARAMS, overrides=ROOT_OVERRIDES,
    raises={"ParamNotFound": "'pool_scope' not in params", "RuntimeError": f"'pool_scope' in params and params['pool_scope'] != 'own' "
                                                                           f"and params['pool_scope'] != 'shared'"},
    ensures=[
        ("own_scope_unsets_locally", f"implies({SCOPE_P} == 'own', {only_root('local_unset_root')})"),
        ("shared_scope_unsets_pool", f"implies({SCOPE_P} == 'shared', {only_root('pool_unset_root')})"),
    ],
    exc_ensures=[("refusal_alters_nothing", f"implies(exc == 'RuntimeError', {none_of(ROOT_SEAMS)})")],
    frame=[], props=["C13"],
)
CHECK_ROOT = Contract(
    target=f"{POOL}::{RCLS}.check_root", params=ROOT_PARAMS, overrides=ROOT_OVERRIDES,
    raises={"ParamNotFound": None},
    ensures=[
        ("own_scope_is_local_only", f"implies({SCOPE_P} == 'own', result == ghost('local_check_root.result') and {same('pool_check_root')})"),
        ("present_only_if_local_or_pool", "implies(result, ghost('local_check_root.result') or "
                                          "(ghost('pool_check_root.calls') != old(ghost('pool_check_root.calls')) and ghost('pool_check_root.result')))"),
        ("local_root_is_enough", "implies(ghost('local_check_root.result'), result)"),
        ("never_alters", none_of(ROOT_SEAMS)),
    ],
    result_kind=BOOL, frame=[], props=["C13"],
)

# the part of SourcedStateBackend.set before the loop over the sources: without `own` in the scope the local state is required
def set_prologue(fn):
    stmts = []
    for n in fn.body:
        if isinstance(n, ast.For):
            break
        if not (isinstance(n, ast.Expr) and isinstance(n.value, ast.Constant)):
            stmts.append(n)
    return stmts


SET_PROLOGUE = Contract(
    target=f"{POOL}::{CLS}.set", name=f"{CLS}.set#prologue", block=("prologue", set_prologue),
    params={"cls": VClass(CLS), "params": Ref("Params"), "object": NONE},
    overrides=dict(OVERRIDES, **{f"{CLS}._set": seam_handler("local_set", None),
                                 f"{CLS}.get_sources": seam_handler("get_sources", Seq(STR))}),
    raises={"ParamNotFound": None, "RuntimeError": None},
    ensures=[
        ("own_scope_saves_locally", f"implies('own' in scopes, {once('local_set')})"),
        ("without_own_scope_local_state_required", f"implies('own' not in scopes, {same('local_set')} and "
                                                   f"old(params['set_state']) in ghost('local_show.result', SeqOf(STR)))"),
        ("no_transfer_yet", none_of(TRANSPORT_OPS)),
    ],
    exc_ensures=[
        ("refused_only_without_local_state", f"implies(exc == 'RuntimeError', 'own' not in scopes and "
                                             f"old(params['set_state']) not in ghost('local_show.result', SeqOf(STR)))"),
        ("refusal_alters_nothing", f"implies(exc == 'RuntimeError', {none_of(TRANSPORT_OPS)} and {same('local_set')})"),
    ],
    frame=[], props=["C13"],
    assumes=["extracted block: the statements of SourcedStateBackend.set before the loop over the sources; `scopes` is the "
             "block's own local (params.get_list('pool_scope')), the same list the loop steps are checked against"],
)


# ---------------------------------------------------------------- compare_chain: is the local copy of a state chain current?
TCLS = "QCOW2ImageTransfer"


def compare_seam(eng, st, recv, args, kw, node):
    """ops.compare(cache_path, pool_path, params): arbitrary answer; the conjunction of all answers is kept in ghost state"""
    r = fresh(BOOL, "cmp")
    n = st.ghost.get("cmp.calls") or V(INT, z3.Const("cmp.calls0", z3.IntSort()))
    allt = st.ghost.get("cmp.all") or V(BOOL, z3.BoolVal(True))
    st.ghost["cmp.calls"] = V(INT, n.term + 1)
    st.ghost["cmp.all"] = V(BOOL, z3.And(allt.term, r.term))
    st.ghost["cmp.last"] = r
    st.ghost["cmp.cache_path"], st.ghost["cmp.pool_path"] = args[0], args[1]
    yield st, r


def path_join(eng, st, recv, args, kw, node):
    t = args[0].term
    for a in args[1:]:
        t = z3.Concat(t, z3.StringVal("/"), a.term)
    yield st, V(STR, t)


def init_cmp(eng, st, frame):
    st.ghost["cmp.all"] = V(BOOL, z3.BoolVal(True))


COMPARE_CHAIN = Contract(
    target=f"{POOL}::{TCLS}.compare_chain", setup=init_cmp,
    params={"cls": VClass(TCLS), "state": STR, "cache_dir": STR, "pool_dir": STR, "params": Ref("Params")},
    requires=["len(state) > 0"],
    overrides={"TransferOps.compare": compare_seam, f"{TCLS}.get_dependency": seam_handler("dependency", STR),
               "os.path.join": path_join},
    loops={0: {"invariants": ["ghost('cmp.all') == True"],
               "ghost": ["cmp.all", "cmp.calls", "cmp.last", "cmp.cache_path", "cmp.pool_path", "dependency.calls",
                         "dependency.result", "dependency.arg0", "dependency.arg1", "dependency.arg2"],
               "kinds": {"next_state": STR, "image_name": STR, "image_params": Ref("Params"), "cache_path": STR, "pool_path": STR}},
           1: {"invariants": ["ghost('cmp.all') == True"],
               "ghost": ["cmp.all", "cmp.calls", "cmp.last", "cmp.cache_path", "cmp.pool_path"],
               "kinds": {"image_name": STR, "image_params": Ref("Params"), "cache_path": STR, "pool_path": STR}}},
    raises={"ParamNotFound": None, "KeyError": None},
    ensures=[
        # the chain counts as current only if every comparison made along it said "equal", and a difference ends it
        ("current_iff_every_comparison_equal", "result == ghost('cmp.all')"),
        ("difference_reported_at_once", "implies(not result, ghost('cmp.last') == False)"),
    ],
    result_kind=BOOL, frame=[], props=["C13"],
    assumes=["TransferOps.compare and get_dependency (qemu-img info) are seams; termination of the walk along the backing "
             "chain is not decided (it ends when a state has no backing file)"],
)


# ---------------------------------------------------------------- transfer_chain: direction of the transfers along a chain
CHAIN_GHOST = ["download.calls", "download.arg0", "download.arg1", "download.arg2", "upload.calls", "upload.arg0", "upload.arg1",
               "upload.arg2", "dependency.calls", "dependency.result", "dependency.arg0", "dependency.arg1", "dependency.arg2"]
TRANSFER_CHAIN = Contract(
    target=f"{POOL}::{TCLS}.transfer_chain",
    params={"cls": VClass(TCLS), "state": STR, "cache_dir": STR, "pool_dir": STR, "params": Ref("Params"), "down": BOOL},
    requires=["len(state) > 0"],
    overrides={"TransferOps.download": seam_handler("download", None), "TransferOps.upload": seam_handler("upload", None),
               f"{TCLS}.get_dependency": seam_handler("dependency", STR), "os.path.join": path_join},
    loops={0: {"invariants": ["implies(down, ghost('upload.calls') == old(ghost('upload.calls')))",
                              "implies(not down, ghost('download.calls') == old(ghost('download.calls')))"],
               "ghost": CHAIN_GHOST,
               "kinds": {"next_state": STR, "image_name": STR, "image_params": Ref("Params"), "cache_path": STR, "pool_path": STR}},
           1: {"invariants": ["implies(down, ghost('upload.calls') == old(ghost('upload.calls')))",
                              "implies(not down, ghost('download.calls') == old(ghost('download.calls')))"],
               "ghost": CHAIN_GHOST,
               "kinds": {"image_name": STR, "image_params": Ref("Params"), "cache_path": STR, "pool_path": STR}}},
    raises={"ParamNotFound": None, "KeyError": None},
    ensures=[
        ("fetching_never_uploads", "implies(down, ghost('upload.calls') == old(ghost('upload.calls')))"),
        ("saving_never_downloads", "implies(not down, ghost('download.calls') == old(ghost('download.calls')))"),
    ],
    frame=[], props=["C13", "C14"],
    assumes=["TransferOps.download / upload and get_dependency are seams; termination of the walk along the chain not decided"],
)


# ---------------------------------------------------------------- transport get / set / unset: direction and location
def chain_seam(eng, st, recv, args, kw, node):
    inner = seam_handler("chain", None)
    for st1, r in inner(eng, st, recv, args, kw, node):
        st1.ghost["chain.down"] = kw.get("down", args[4] if len(args) > 4 else const(True))
        yield st1, r


T_PARAMS = {"cls": VClass(TCLS), "params": Ref("Params"), "object": NONE}
T_OV = {f"{TCLS}.transfer_chain": chain_seam, "os.path.join": path_join}
CHAIN_ARGS = ("ghost('chain.arg1', STR) == params['{do}_state'] and ghost('chain.arg2', STR) == params['swarm_pool'] and "
              "ghost('chain.arg3', STR) == params['{do}_location'] and ghost('chain.arg4', Ref('Params')) == params")
T_GET = Contract(
    target=f"{POOL}::{TCLS}.get", params=T_PARAMS, overrides=T_OV, raises={"ParamNotFound": None},
    ensures=[("downloads_the_chain_from_the_get_location", f"{once('chain')} and ghost('chain.down') == True and "
                                                           + CHAIN_ARGS.format(do="get"))],
    frame=[], props=["C13"])
T_SET = Contract(
    target=f"{POOL}::{TCLS}.set", params=T_PARAMS, overrides=T_OV, raises={"ParamNotFound": None},
    ensures=[("uploads_the_chain_to_the_set_location", f"{once('chain')} and ghost('chain.down') == False and "
                                                       + CHAIN_ARGS.format(do="set"))],
    frame=[], props=["C13"])
DEL_GHOST = ["t_delete.calls", "t_delete.arg0", "t_delete.arg1", "t_delete.arg2"]
T_UNSET = Contract(
    target=f"{POOL}::{TCLS}.unset", params=T_PARAMS,
    overrides={"TransferOps.delete": seam_handler("t_delete", None), "os.path.join": path_join},
    loops={0: {"invariants": ["ghost('t_delete.calls') == old(ghost('t_delete.calls')) + _i",
                              "implies(_i > 0, ghost('t_delete.arg1', STR).startswith(params['unset_location'] + '/'))"],
               "ghost": DEL_GHOST,
               "kinds": {"image_name": STR, "image_params": Ref("Params"), "pool_path": STR}}},
    raises={"ParamNotFound": None},
    ensures=[
        ("one_file_per_image_plus_memory_file", "ghost('t_delete.calls') == old(ghost('t_delete.calls')) + len(params.objects('images')) + "
                                                "(1 if params['object_type'] in ['vms', 'nets/vms'] else 0)"),
        ("only_below_the_unset_location", "implies(ghost('t_delete.calls') != old(ghost('t_delete.calls')), "
                                          "ghost('t_delete.arg1', STR).startswith(params['unset_location'] + '/'))"),
    ],
    frame=[], props=["C13"],
    assumes=["TransferOps.delete is a seam; only the last deleted path is recorded, the invariant carries the prefix fact"])


# ---------------------------------------------------------------- the statements around the source loops (local cache and `own` scope)
def before_loop(fn):
    out = []
    for n in fn.body:
        if isinstance(n, ast.For):
            break
        if not (isinstance(n, ast.Expr) and isinstance(n.value, ast.Constant)):
            out.append(n)
    return out


def after_loop(fn):
    out, seen = [], False
    for n in fn.body:
        if seen:
            out.append(n)
        if isinstance(n, ast.For):
            seen = True
    return out


LOCAL_OV = dict(OVERRIDES, **{f"{CLS}._get": seam_handler("local_get", None), f"{CLS}._unset": seam_handler("local_unset", None),
                              f"{CLS}.get_sources": seam_handler("get_sources", Seq(STR))})
BASE = {"cls": VClass(CLS), "params": Ref("Params"), "object": NONE}

SHOW_PROLOGUE = Contract(
    target=f"{POOL}::{CLS}.show", name=f"{CLS}.show#prologue", block=("prologue", before_loop), params=BASE,
    overrides=LOCAL_OV, raises={"ParamNotFound": None},
    outputs={"cache_states": Seq(STR), "scopes": Seq(STR)},
    ensures=[("local_cache_listed_only_with_own_scope", "ite('own' in scopes, ghost('local_show.calls') == old(ghost('local_show.calls')) + 1 and "
                                                        "cache_states == ghost('local_show.result', SeqOf(STR)), "
                                                        "ghost('local_show.calls') == old(ghost('local_show.calls')) and len(cache_states) == 0)"),
             ("no_transfer", none_of(TRANSPORT_OPS))],
    frame=[], props=["C13"], assumes=["extracted block: the statements of show before the loop over the sources"])
SHOW_EPILOGUE = Contract(
    target=f"{POOL}::{CLS}.show", name=f"{CLS}.show#epilogue", block=("epilogue", after_loop),
    params={"cache_states": Seq(STR), "pool_states": SetK(STR)},
    ensures=[("present_only_if_cached_or_in_permitted_sources", "forall(STR, lambda s: (s in result) == (s in cache_states or s in pool_states))")],
    result_kind=Seq(STR), frame=[], props=["C13"], assumes=["extracted block: the return statement of show"])
GET_EPILOGUE = Contract(
    target=f"{POOL}::{CLS}.get", name=f"{CLS}.get#epilogue", block=("epilogue", after_loop),
    params=dict(BASE, scopes=Seq(STR)), overrides=LOCAL_OV,
    ensures=[("local_get_iff_own_scope", "ite('own' in scopes, ghost('local_get.calls') == old(ghost('local_get.calls')) + 1, "
                                         "ghost('local_get.calls') == old(ghost('local_get.calls')))"),
             ("no_transfer", none_of(TRANSPORT_OPS))],
    frame=[], props=["C13"], assumes=["extracted block: the statements of get after the loop over the sources"])
UNSET_PROLOGUE = Contract(
    target=f"{POOL}::{CLS}.unset", name=f"{CLS}.unset#prologue", block=("prologue", before_loop), params=BASE,
    overrides=LOCAL_OV, raises={"ParamNotFound": None},
    outputs={"scopes": Seq(STR)},
    ensures=[("local_removal_iff_own_scope", "ite('own' in scopes, ghost('local_unset.calls') == old(ghost('local_unset.calls')) + 1, "
                                             "ghost('local_unset.calls') == old(ghost('local_unset.calls')))"),
             ("no_transfer", none_of(TRANSPORT_OPS))],
    frame=[], props=["C13"], assumes=["extracted block: the statements of unset before the loop over the sources"])


# ---------------------------------------------------------------- RootSourcedStateBackend.get_root: refresh the local root only if needed
GET_ROOT = Contract(
    target=f"{POOL}::{RCLS}.get_root", params=ROOT_PARAMS, setup=init_cmp,
    overrides=dict(ROOT_OVERRIDES, **{"TransferOps.compare": compare_seam, "os.path.join": path_join}),
    loops={0: {"invariants": ["ghost('cmp.all') == True", "cache_valid == True"],
               "ghost": ["cmp.all", "cmp.calls", "cmp.last", "cmp.cache_path", "cmp.pool_path"],
               "kinds": {"image_name": STR, "image_params": Ref("Params"), "image_filename": STR, "cache_path": STR, "pool_path": STR,
                         "cache_valid": BOOL}}},
    raises={"ParamNotFound": None, "KeyError": None},
    ensures=[
        ("without_own_scope_only_the_pool", f"implies('own' not in {SCOPE_P}, {only_root('pool_get_root')})"),
        ("own_scope_only_is_local", f"implies({SCOPE_P} == 'own', {only_root('local_get_root')} and {same('pool_check_root')})"),
        ("mixed_scope_ends_with_the_local_root", f"implies('own' in {SCOPE_P} and {SCOPE_P} != 'own', {once('local_get_root')} and "
                                                 f"{same('local_set_root')} and {same('pool_set_root')} and {same('local_unset_root')} and {same('pool_unset_root')})"),
        ("download_only_if_pool_has_it_and_cache_is_stale", f"implies('own' in {SCOPE_P} and {SCOPE_P} != 'own', "
                                                            f"ite(ghost('pool_check_root.result') and not (ghost('local_check_root.result') and ghost('cmp.all')), "
                                                            f"{once('pool_get_root')}, {same('pool_get_root')}))"),
    ],
    frame=[], props=["C13"],
    assumes=["root checks, root transfers and the per-image comparison are seams"],
)
