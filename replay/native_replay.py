"""Native replay of a counterexample: rebuild real objects, run the REAL function, evaluate the contract.

Run with /venv/bin/python.  Usage: native_replay.py <witness.json>  (repository path inside the witness or $VERIF_REPO)
Prints one JSON document with the verdict.
"""
import ast
import copy
import importlib
import json
import os
import sys
import traceback


def main():
    wpath = sys.argv[1]
    w = json.load(open(wpath))
    repo = os.environ.get("VERIF_REPO", w.get("repo", "/repo"))
    sys.path.insert(0, repo)
    sys.path.insert(0, os.path.dirname(os.path.dirname(os.path.abspath(__file__))))
    from replay import builders
    verdict = builders.replay(w, repo)
    print("REPLAY-VERDICT " + json.dumps(verdict))


if __name__ == "__main__":
    try:
        main()
    except Exception:
        print("REPLAY-VERDICT " + json.dumps({"status": "error", "trace": traceback.format_exc()[-3000:]}))
