"""Build real repository objects from a reified witness and evaluate a contract natively.

This module runs under /venv/bin/python with the repository on sys.path.
"""
import ast
import copy
import importlib
import json
import os
import re
import traceback
from unittest import mock


class Universe:
    def __init__(self):
        self.strs, self.ints, self.objs = set([""]), set([-1, 0, 1, 2]), {}


def collect(desc, uni):
    if isinstance(desc, dict):
        if desc.get("t") == "str":
            uni.strs.add(desc["v"])
        if desc.get("t") == "int":
            uni.ints.add(desc["v"])
        for v in desc.values():
            collect(v, uni)
    elif isinstance(desc, list):
        for v in desc:
            collect(v, uni)
    elif isinstance(desc, str):
        pass


class Plain:
    """Attribute bag standing for avocado objects the code only reads attributes of (job, job.result)."""


class Builder:
    def __init__(self, witness):
        self.w = witness
        self.objs = {}          # ref id -> python object
        self.by_class = {}
        self.pending = []

    def cls_of(self, name):
        from avocado_i2n.cartgraph import TestNode, TestWorker, TestSwarm, TestObject, NetObject, VMObject, ImageObject
        from avocado_i2n.cartgraph.node import EdgeRegister
        from virttest.utils_params import Params
        table = {"TestNode": TestNode, "TestWorker": TestWorker, "TestSwarm": TestSwarm, "TestObject": TestObject,
                 "NetObject": NetObject, "VMObject": VMObject, "ImageObject": ImageObject,
                 "EdgeRegister": EdgeRegister, "Params": Params}
        if name == "TestRunner":
            from avocado_i2n.plugins.runner import TestRunner
            return TestRunner
        if name in ("Job", "JobResultSet"):
            return Plain
        return table.get(name)

    def shell(self, rid):
        """Create the (empty) python object for a reference; fields are filled later (cycles)."""
        if rid in self.objs:
            return self.objs[rid]
        d = self.w["inputs"]["objects"][rid]
        cls = d["cls"]
        if cls == "Params":
            from virttest.utils_params import Params
            o = Params(dict(d["fields"].get("data", {})))
        elif cls in ("Result", "JobResult"):
            o = {}
        elif cls == "TestID":
            from avocado.core.test_id import TestID
            f = d["fields"]
            o = TestID(f.get("uid", {}).get("v", ""), f.get("name", {}).get("v", ""))
        elif cls == "Spawner":
            o = mock.MagicMock(name="spawner")
        else:
            c = self.cls_of(cls)
            if c is None:
                o = mock.MagicMock(name=cls)
            else:
                o = object.__new__(c)
        self.objs[rid] = o
        self.by_class.setdefault(cls, []).append(o)
        self.pending.append(rid)
        return o

    def val(self, desc):
        t = desc.get("t")
        if t in ("int", "str", "bool", "float"):
            return desc["v"]
        if t == "none":
            return None
        if t == "ref":
            return self.shell(desc["id"])
        if t == "seq":
            return [self.val(x) for x in desc["items"]]
        if t == "set":
            return set(self.val(x) for x in desc["items"])
        if t == "map":
            return {self.val(k): self.val(v) for k, v in desc["items"]}
        return None

    def fill_all(self):
        while self.pending:
            rid = self.pending.pop()
            d = self.w["inputs"]["objects"][rid]
            o = self.objs[rid]
            cls = d["cls"]
            if cls == "Params":
                continue
            if cls == "Result":
                f = d["fields"]
                for key, fld in (("name", "r_name"), ("status", "r_status"), ("time_elapsed", "r_time"), ("uid", "r_uid")):
                    if fld in f:
                        o[key] = self.val(f[fld])
                continue
            if cls == "JobResult":
                f = d["fields"]
                o["name"] = self.val(f["tid"]) if "tid" in f else None
                o["status"] = self.val(f.get("j_status", {"t": "str", "v": "PASS"}))
                o["time_elapsed"] = self.val(f.get("j_time", {"t": "str", "v": "1.0"}))
                continue
            if cls == "TestID":
                continue
            if isinstance(o, mock.MagicMock):
                continue
            for fname, fdesc in d["fields"].items():
                try:
                    object.__setattr__(o, fname, self.val(fdesc))
                except Exception:
                    o.__dict__[fname] = self.val(fdesc)
            self.finish(cls, o)

    def finish(self, cls, o):
        """Attributes the schema does not model but the real code may touch."""
        if cls == "TestNode":
            d = o.__dict__
            d.setdefault("should_run", o.default_run_decision)
            d.setdefault("should_clean", o.default_clean_decision)
            d.setdefault("recipe", None)
            d.setdefault("kind", "avocado-vt")
            d.setdefault("uri", d.get("prefix", ""))
            d.setdefault("args", ())
            d.setdefault("kwargs", {})
        if cls in ("TestObject", "NetObject", "VMObject", "ImageObject"):
            o.__dict__.setdefault("recipe", None)


def install_otp_stub(b, w, stack):
    """object_typed_params is an uninterpreted deterministic function in the VCs: when the witness carries
    model values for it, the real method is stubbed with them (falls back to the real one otherwise)."""
    otp = w.get("otp") or {}
    if not otp:
        return
    from virttest.utils_params import Params
    from avocado_i2n.cartgraph import TestObject
    table = {}
    for on, per in otp.items():
        for pn, data in per.items():
            if on in b.objs and pn in b.objs:
                table[(id(b.objs[on]), id(b.objs[pn]))] = data
    real = TestObject.object_typed_params

    def stub(self, params):
        key = (id(self), id(params))
        if key in table:
            return Params(dict(table[key]))
        return real(self, params)
    stack.enter_context(mock.patch.object(TestObject, "object_typed_params", stub))


GHOST = {}
IN_OLD = []


def install_seams(b, w, stack, params):
    """Seams (test runner, sleeping): scripted by the witness; every crossing is counted in GHOST."""
    GHOST.clear()
    seams = w.get("seams") or {}
    if "TestRunner.run_test_task" in seams or "asyncio.sleep" in seams:
        from avocado_i2n.plugins.runner import TestRunner
        from avocado.core.test_id import TestID
        script = list(seams.get("journal", []))

        def deliver(runner, node, upto):
            n = 0
            while script and n < upto:
                item = script.pop(0)
                n += 1
                if item.get("match"):
                    tid = TestID(node.id_test.uid, node.params["name"])
                else:
                    tid = TestID(item.get("uid", "9"), item.get("name", "other"))
                runner.job.result.tests.append({"name": tid, "status": item.get("status", "PASS"),
                                                "time_elapsed": item.get("time", "1.0")})

        holder = {}

        async def run_test_task(self, node):
            GHOST["run.calls"] = GHOST.get("run.calls", 0) + 1
            holder["runner"], holder["node"] = self, node
            if node.started_worker is None or node.started_worker.spawner is None:
                raise RuntimeError("no worker is running the node")
            deliver(self, node, seams.get("on_run", 1))

        async def sleep(_):
            GHOST["sleep.calls"] = GHOST.get("sleep.calls", 0) + 1
            if "runner" in holder:
                deliver(holder["runner"], holder["node"], seams.get("on_sleep", 1))
        stack.enter_context(mock.patch.object(TestRunner, "run_test_task", run_test_task))
        stack.enter_context(mock.patch("asyncio.sleep", sleep))


def install_stubs(b, w, stack):
    """Summarised callees are stubbed with the values the model gave them (recorded in the witness)."""
    install_otp_stub(b, w, stack)
    for key, table in w.get("stubs", {}).items():
        cls_name, attr = key.split(".")
        cls = b.cls_of(cls_name)
        values = {}
        for rid, desc in table.items():
            if rid in b.objs:
                values[id(b.objs[rid])] = b.val(desc)
        kind = w.get("stub_kinds", {}).get(key, "property")

        def getter(self, _values=values, _key=key):
            if id(self) in _values:
                return _values[id(self)]
            raise AssertionError(f"stub {_key} has no value for {self!r}")
        if kind == "property":
            stack.enter_context(mock.patch.object(cls, attr, property(getter)))
        else:
            stack.enter_context(mock.patch.object(cls, attr, lambda self, *a, _g=getter, **k: _g(self)))


class SpecEnv:
    """Native meaning of the contract language."""

    def __init__(self, b, uni, params, snapshot):
        self.b, self.uni, self.params, self.snapshot = b, uni, params, snapshot

    def domain(self, dom):
        if dom == "STR":
            return sorted(self.uni.strs | {"zz!fresh1", "zz!fresh2"})
        if dom == "INT":
            return sorted(self.uni.ints)
        if dom == "BOOL":
            return [False, True]
        if isinstance(dom, tuple) and dom[0] == "Ref":
            objs = list(self.b.by_class.get(dom[1], [])) + [o for c, l in self.b.by_class.items() for o in l
                                                            if c != dom[1] and self.is_sub(c, dom[1])]
            if IN_OLD:      # quantifiers inside old(...) range over the pre-state objects
                objs = [IN_OLD[-1](o) for o in objs]
            return objs
        if isinstance(dom, (list, tuple, set, dict, range)):
            return list(dom)
        raise TypeError(f"domain {dom!r}")

    def is_sub(self, c, base):
        a, bb = self.b.cls_of(c), self.b.cls_of(base)
        try:
            return a is not None and bb is not None and issubclass(a, bb)
        except TypeError:
            return False

    def names(self):
        import itertools

        def doms(dom):
            if isinstance(dom, list) and dom and all(isinstance(d, (str, tuple)) and (d in ("STR", "INT", "BOOL") or
                                                     (isinstance(d, tuple) and d[0] == "Ref")) for d in dom):
                return [self.domain(d) for d in dom]
            return [self.domain(dom)]

        def forall(dom, fn):
            for combo in itertools.product(*doms(dom)):
                try:
                    if not fn(*combo):
                        return False
                except (KeyError, IndexError, AttributeError, TypeError):
                    return False
            return True

        def exists(dom, fn):
            for combo in itertools.product(*doms(dom)):
                try:
                    if fn(*combo):
                        return True
                except (KeyError, IndexError, AttributeError, TypeError):
                    pass
            return False

        ns = {
            "STR": "STR", "INT": "INT", "BOOL": "BOOL", "Ref": lambda c: ("Ref", c),
            "forall": forall, "exists": exists,
            "implies": lambda a, b: (not a) or b, "iff": lambda a, b: bool(a) == bool(b),
            "wf_map": lambda m: True, "keys_of": lambda m: list(m.keys()),
            "ite": lambda c, a, b: a if c else b, "allocated": lambda o: True,
            "str_is_int": _str_is_int, "str_int": lambda s: int(s), "with_field": _with_field, "let": lambda v, fn: fn(v), "ghost": lambda name, *a: GHOST.get(name, 0),
            "DEFINITE": ["PASS", "FAIL", "ERROR", "WARN", "SKIP", "CANCEL", "INTERRUPTED"],
            "bridged_results_len": lambda n, i: sum(len(b.results) for b in list(n._bridged_nodes)[:i]),
            "filtered_len": lambda lst, flt, i: sum(1 for r in list(lst)[:i] if flt in r["name"]),
            **getattr(self, "helpers", {}),
        }
        for cname in ("TestNode", "TestWorker", "TestSwarm", "TestObject", "NetObject", "VMObject", "ImageObject",
                      "EdgeRegister", "Params"):
            c = self.b.cls_of(cname)
            if c is not None:
                ns[cname] = c
        ns.update(self.params)
        return ns


def _str_is_int(s):
    try:
        int(s)
        return True
    except (ValueError, TypeError):
        return False


def _with_field(obj, field, value, fn):
    missing = object()
    old = obj.__dict__.get(field, missing)
    obj.__dict__[field] = value
    try:
        return fn()
    finally:
        if old is missing:
            del obj.__dict__[field]
        else:
            obj.__dict__[field] = old


class OldRewriter(ast.NodeTransformer):
    """old(E) -> __tolive(__inold(lambda p1=__pre['p1'], ...: E'))  where E' is E with every variable bound by an
    enclosing lambda (quantifier / let) translated to its pre-state counterpart (__toold)."""

    def __init__(self, pnames):
        self.pnames = pnames
        self.bound = []
        self.bound_outside = []
        self.in_old = 0

    def visit_Lambda(self, node):
        names = [a.arg for a in node.args.args]
        self.bound.append(names)
        node.body = self.visit(node.body)
        self.bound.pop()
        return node

    def visit_Name(self, node):
        if self.in_old and isinstance(node.ctx, ast.Load) and (node.id == "result" or any(node.id in b for b in self.bound_outside)):
            return ast.Call(func=ast.Name(id="__toold", ctx=ast.Load()), args=[node], keywords=[])
        return node

    def visit_Call(self, node):
        if isinstance(node.func, ast.Name) and node.func.id == "old" and len(node.args) == 1:
            self.in_old += 1
            saved = self.bound_outside
            self.bound_outside = [list(b) for b in self.bound]
            inner_bound = self.bound
            self.bound = []
            body = self.visit(node.args[0])
            self.bound = inner_bound
            self.bound_outside = saved
            self.in_old -= 1
            args = ast.arguments(posonlyargs=[], args=[ast.arg(arg=p) for p in self.pnames], kwonlyargs=[],
                                 kw_defaults=[], defaults=[
                                     ast.Subscript(value=ast.Name(id="__pre", ctx=ast.Load()), slice=ast.Constant(p), ctx=ast.Load())
                                     for p in self.pnames])
            lam = ast.Lambda(args=args, body=body)
            call = ast.Call(func=ast.Name(id="__inold", ctx=ast.Load()), args=[lam], keywords=[])
            return ast.Call(func=ast.Name(id="__tolive", ctx=ast.Load()), args=[call], keywords=[])
        self.generic_visit(node)
        if isinstance(node.func, ast.Name) and node.func.id == "implies" and len(node.args) == 2:
            # lazy implication: the consequent is only evaluated when the antecedent holds
            return ast.BoolOp(op=ast.Or(), values=[ast.UnaryOp(op=ast.Not(), operand=node.args[0]), node.args[1]])
        return node


def spec_eval(expr, env_names, pnames):
    tree = ast.parse(expr.strip(), mode="eval")
    tree = OldRewriter(pnames).visit(tree)
    ast.fix_missing_locations(tree)
    return eval(compile(tree, "<spec>", "eval"), env_names)


def replay(w, repo):
    import contextlib
    b = Builder(w)
    uni = Universe()
    collect(w["inputs"], uni)
    params = {}
    for name, desc in w["inputs"]["params"].items():
        if desc.get("t") == "python-level":
            continue
        params[name] = b.val(desc)
    b.fill_all()
    # class-level state
    ghost = w["inputs"].get("ghost", {})
    if "TestSwarm.run_swarms" in ghost:
        from avocado_i2n.cartgraph import TestSwarm
        TestSwarm.run_swarms = b.val(ghost["TestSwarm.run_swarms"])
        b.fill_all()
    call = w["call"]
    verdict = {"status": "ok", "obligation": w.get("obligation"), "violated": [], "held": [], "errors": []}
    from avocado_i2n.cartgraph import TestSwarm as _TS
    pre_swarms = _TS.run_swarms
    memo = {}
    world = copy.deepcopy({"params": params, "swarms": pre_swarms, "objs": list(b.objs.values())}, memo)
    live_params = world["params"]
    fwd = {oid: cp for oid, cp in memo.items() if not isinstance(cp, (int, str, float, bool, type(None)))}
    back = {}
    originals = {}

    def index(o, depth=0):
        if id(o) in originals or depth > 10 or isinstance(o, (int, str, float, bool, type(None))):
            return
        originals[id(o)] = o
        if isinstance(o, dict):
            for k, v in o.items():
                index(k, depth + 1)
                index(v, depth + 1)
        elif isinstance(o, (list, tuple, set)):
            for v in o:
                index(v, depth + 1)
        elif hasattr(o, "__dict__"):
            for v in list(o.__dict__.values()):
                index(v, depth + 1)
    index(params)
    index(pre_swarms)
    for o in b.objs.values():
        index(o)
    for oid, cp in fwd.items():
        if oid in originals:
            back[id(cp)] = originals[oid]

    def tolive(v, depth=0):
        if isinstance(v, (int, str, float, bool, type(None))) or depth > 6:
            return v
        if id(v) in fwd and not isinstance(v, (list, tuple, set)) and type(v) is not dict:
            return fwd[id(v)]
        if isinstance(v, list):
            return [tolive(x, depth + 1) for x in v]
        if isinstance(v, tuple):
            return tuple(tolive(x, depth + 1) for x in v)
        if isinstance(v, set):
            return {tolive(x, depth + 1) for x in v}
        if isinstance(v, dict):
            try:
                return {tolive(k, depth + 1): tolive(x, depth + 1) for k, x in v.items()}
            except Exception:
                return v
        return v

    def toold(v):
        return back.get(id(v), v)

    def inold(fn):
        cur = _TS.run_swarms
        _TS.run_swarms = pre_swarms
        IN_OLD.append(toold)
        try:
            return fn()
        finally:
            IN_OLD.pop()
            _TS.run_swarms = cur
    # from here on the live world is the copy; the originals stay untouched as the pre-state
    _TS.run_swarms = world["swarms"]
    for cls_name, lst in list(b.by_class.items()):
        b.by_class[cls_name] = [fwd.get(id(o), o) for o in lst]
    b.objs = {rid: fwd.get(id(o), o) for rid, o in b.objs.items()}
    params = live_params
    with contextlib.ExitStack() as stack:
        install_stubs(b, w, stack)
        pnames = list(params.keys())
        snapshot = {k: toold(v) for k, v in params.items()}
        env0 = SpecEnv(b, uni, params, snapshot)
        env0.helpers = {"__pre": snapshot, "__toold": toold, "__tolive": tolive, "__inold": inold}
        for r in w.get("requires", []):
            try:
                if not spec_eval(r, env0.names(), pnames):
                    verdict["status"] = "precondition-violated"
                    verdict["errors"].append(f"requires {r!r} is false on the reified input")
                    _TS.run_swarms = pre_swarms
                    return verdict
            except Exception as e:
                verdict["errors"].append(f"requires {r!r}: {type(e).__name__}: {e}")
        install_seams(b, w, stack, params)
        outcome, result, exc = "return", None, None
        try:
            if call["how"] == "method":
                recv = params[call["self"]]
                args = [params[a] for a in call["args"]]
                result = getattr(recv, call["name"])(*args)
                import inspect
                if inspect.iscoroutine(result):
                    import asyncio
                    result = asyncio.run(result)
            elif call["how"] == "property":
                result = getattr(params[call["self"]], call["name"])
            elif call["how"] == "function":
                mod = importlib.import_module(call["module"])
                fn = mod
                for part in call["name"].split("."):
                    fn = getattr(fn, part)
                result = fn(*[params[a] for a in call["args"]])
            else:
                raise RuntimeError(f"unknown call kind {call['how']}")
        except BaseException as e:   # the outcome of the real code
            outcome, exc = "raise", e
        verdict["outcome"] = outcome if outcome == "return" else f"raise {type(exc).__name__}: {exc}"
        env = SpecEnv(b, uni, dict(params, result=result), snapshot)
        env.helpers = env0.helpers
        names = env.names()
        if outcome == "return":
            try:
                verdict["result"] = repr(result)[:300]
            except Exception:
                verdict["result"] = "<unrepresentable>"
            for ename, expr in w.get("ensures", []):
                try:
                    ok = bool(spec_eval(expr, names, pnames))
                except Exception as e:
                    verdict["errors"].append(f"ensures {ename}: {type(e).__name__}: {e}")
                    continue
                (verdict["held"] if ok else verdict["violated"]).append(ename)
            for ecls, when in w.get("raises", {}).items():
                if when is None or w.get("raises_only_if"):
                    continue
                try:
                    if spec_eval(f"old({when})", names, pnames):
                        verdict["violated"].append(f"raises.{ecls}.exactly_when")
                except Exception as e:
                    verdict["errors"].append(f"raises {ecls}: {type(e).__name__}: {e}")
        else:
            ename = type(exc).__name__
            mro = [c.__name__ for c in type(exc).__mro__]
            listed = [e for e in w.get("raises", {}) if e in mro]
            if not listed:
                verdict["violated"].append(f"no_unexpected.{ename}")
            else:
                when = w["raises"][listed[0]]
                if when is not None:
                    try:
                        if not spec_eval(f"old({when})", names, pnames):
                            verdict["violated"].append(f"raises.{listed[0]}.only_when")
                        else:
                            verdict["held"].append(f"raises.{listed[0]}.only_when")
                    except Exception as e:
                        verdict["errors"].append(f"raises {listed[0]}: {type(e).__name__}: {e}")
    _TS.run_swarms = pre_swarms
    return verdict
