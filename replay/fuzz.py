"""Schema-driven bounded native search for a counterexample of a contract on the REAL function.

Run with /venv/bin/python:  fuzz.py <job.json>
job: {"repo":..., "contract": {requires, ensures, raises, raises_only_if, call, params: {name: kind}},
      "schema": {...}, "literals": [...], "param_keys": [...], "stubs": {"Class.attr": [owner, kind, how]},
      "seed": int, "budget_s": float, "max_cases": int, "seeds": [witness inputs ...]}
Prints "FUZZ-RESULT <json>" with either a failing witness (same format as the reifier's) or statistics.
"""
import copy
import json
import os
import random
import sys
import time
import traceback


def subclasses(schema, cls):
    out = [cls]
    changed = True
    while changed:
        changed = False
        for c, sc in schema.items():
            if c not in out and any(b in out for b in sc.get("bases", [])):
                out.append(c)
                changed = True
    return out


def all_fields(schema, cls):
    fields = {}
    todo, seen = [cls], set()
    while todo:
        c = todo.pop(0)
        if c in seen:
            continue
        seen.add(c)
        for f, k in schema.get(c, {}).get("fields", {}).items():
            fields.setdefault(f, k)
        todo += schema.get(c, {}).get("bases", [])
    return fields


class Gen:
    def __init__(self, job, rnd):
        self.job, self.rnd = job, rnd
        self.schema = job["schema"]
        self.lits = list(dict.fromkeys(job.get("literals", []) + ["", "a", "b", "0", "1", "2", "3", "5", "-1",
                                                                   "PASS", "FAIL", "ERROR", "UNKNOWN"]))
        self.param_keys = job.get("param_keys", [])
        self.objects = {}
        self.pools = {}
        self.pool_size = rnd.choice([1, 2, 2, 3])
        self.p_none = rnd.choice([0.1, 0.25, 0.5])
        self.p_key = rnd.choice([0.3, 0.6, 0.9])
        self.seen_strings = []

    def string(self):
        r = self.rnd
        x = r.random()
        if self.seen_strings and x < 0.25:
            # reuse / embed strings already present in the graph (ids inside names etc.)
            base = r.choice(self.seen_strings)
            s = base if r.random() < 0.4 else r.choice(self.lits) + "." + base + r.choice(["", ".x"])
            return s
        if x < 0.7:
            return r.choice(self.lits)
        if x < 0.9:
            return " ".join(r.sample(self.lits, k=min(len(self.lits), r.randint(1, 3))))
        return r.choice(self.lits) + r.choice([".", "_", "1", "x"]) + r.choice(self.lits)

    def new_object(self, cls):
        choices = [c for c in subclasses(self.schema, cls) if c in self.schema]
        c = self.rnd.choice(choices) if choices else cls
        oid = f"{c}:g{len(self.objects)}"
        self.objects[oid] = {"cls": c, "fields": None}
        return oid

    def ref(self, cls, nullable=True):
        if nullable and self.rnd.random() < self.p_none:
            return {"t": "none"}
        pool = self.pools.setdefault(cls, [])
        if len(pool) < self.pool_size and (not pool or self.rnd.random() < 0.5):
            pool.append(self.new_object(cls))
        oid = self.rnd.choice(pool)
        return {"t": "ref", "id": oid, "cls": self.objects[oid]["cls"]}

    def value(self, kind, depth=0):
        r = self.rnd
        if kind == "int":
            return {"t": "int", "v": r.choice([-1, 0, 1, 1, 2, 3])}
        if kind == "bool":
            return {"t": "bool", "v": r.random() < 0.5}
        if kind == "str":
            v = self.string()
            if v and len(self.seen_strings) < 20:
                self.seen_strings.append(v)
            return {"t": "str", "v": v}
        if kind == "float":
            return {"t": "float", "v": r.choice([0.0, 0.5, 1.0, 2.0, 10.0])}
        if isinstance(kind, list):
            tag = kind[0]
            if tag == "ref":
                return self.ref(kind[1])
            if tag == "seq":
                n = r.choice([0, 0, 1, 1, 2, 2, 3, 4])
                items = []
                for _ in range(n):
                    v = self.value(kind[1], depth + 1)
                    if v.get("t") == "none" and r.random() < 0.9:
                        continue
                    items.append(v)
                return {"t": "seq", "items": items}
            if tag == "set":
                n = r.choice([0, 0, 1, 2])
                items, seen = [], set()
                for _ in range(n):
                    v = self.value(kind[1], depth + 1)
                    key = json.dumps(v, sort_keys=True)
                    if v.get("t") == "none" or key in seen:
                        continue
                    seen.add(key)
                    items.append(v)
                return {"t": "set", "items": items}
            if tag == "map":
                n = r.choice([0, 1, 1, 2])
                items, seen = [], set()
                for _ in range(n):
                    k = self.value(kind[1], depth + 1)
                    key = json.dumps(k, sort_keys=True)
                    if k.get("t") == "none" or key in seen:
                        continue
                    seen.add(key)
                    items.append([k, self.value(kind[2], depth + 1)])
                return {"t": "map", "items": items}
            if tag == "opt":
                return {"t": "none"} if r.random() < 0.3 else self.value(kind[1], depth + 1)
        return {"t": "none"}

    def fill(self):
        guard = 0
        while guard < 200:
            guard += 1
            todo = [oid for oid, o in self.objects.items() if o["fields"] is None]
            if not todo:
                break
            nonparams = [oid for oid in todo if self.objects[oid]["cls"] != "Params"]
            if nonparams:
                todo = nonparams
            for oid in todo:
                o = self.objects[oid]
                cls = o["cls"]
                if cls == "Params":
                    data = {}
                    for k in self.param_keys:
                        if self.rnd.random() < self.p_key:
                            if k in self.job.get("numeric_keys", []) and self.rnd.random() < 0.85:
                                data[k] = self.rnd.choice(["0", "1", "2", "3", "4", "5", "10", "-1"])
                            else:
                                data[k] = self.string()
                    # related values: a parameter that lists (dotted) prefixes / parts of another parameter's value, so that
                    # prefix / membership relations between parameters (set names vs test names ...) actually occur
                    if len(data) >= 2 and self.rnd.random() < 0.4:
                        k1, k2 = self.rnd.sample(sorted(data), 2)
                        base = data[k1] if data[k1] and " " not in data[k1] else "a.b.c"
                        if "." not in base:
                            base = base + "." + self.rnd.choice(["b", "x.y", "c"])
                            data[k1] = base
                        parts = base.split(".")
                        toks = [".".join(parts[:i]) for i in range(1, len(parts))] + [self.rnd.choice(self.lits) or "z"]
                        self.rnd.shuffle(toks)
                        data[k2] = " ".join(t for t in toks if t)
                    o["fields"] = {"data": data}
                    continue
                o["fields"] = {}
                nonnull = set()
                for c2 in [cls] + [b for b in self.schema if cls in subclasses(self.schema, b)]:
                    nonnull |= set(self.schema.get(c2, {}).get("nonnull", []))
                for f, k in all_fields(self.schema, cls).items():
                    if k == "py":
                        continue
                    pools = {}
                    for c2 in [cls] + [b for b in self.schema if cls in subclasses(self.schema, b)]:
                        pools.update(self.schema.get(c2, {}).get("pools", {}))
                    if f in pools and self.rnd.random() < 0.85:
                        o["fields"][f] = {"t": "str", "v": self.rnd.choice(pools[f])}
                    elif f in nonnull and isinstance(k, list) and k[0] == "ref":
                        o["fields"][f] = self.ref(k[1], nullable=False)
                    else:
                        o["fields"][f] = self.value(k)

    def apply_param_hints(self, params):
        """Make the presence / emptiness preconditions on self.params likely to hold (rejection sampling otherwise
        discards almost every generated input)."""
        import re
        me = params.get("self")
        if not me or me.get("t") != "ref":
            return
        pc = self.objects[me["id"]]["fields"].get("_params_cache")
        if not pc or pc.get("t") != "ref":
            return
        data = self.objects[pc["id"]]["fields"]["data"]
        for r in self.job["contract"]["requires"]:
            for key, neg in re.findall(r"'(\w+)' (not )?in self\.params", r):
                if neg:
                    data.pop(key, None)
                else:
                    if key not in data:
                        data[key] = self.string()
                    m = re.search(r"len\(self\.params\['%s'\]\) (==|>) 0" % key, r)
                    if m and m.group(1) == "==":
                        data[key] = ""
                    elif m and not data[key]:
                        data[key] = self.rnd.choice([x for x in self.lits if x] or ["x"])

    def inputs(self):
        params = {}
        for name, kind in self.job["contract"]["params"].items():
            nullable = False
            if isinstance(kind, dict):
                nullable, kind = kind.get("nullable", False), kind["kind"]
            if isinstance(kind, list) and kind[0] == "ref":
                params[name] = self.ref(kind[1], nullable=nullable)
            elif kind == "const":
                params[name] = self.job["contract"]["params"][name]["value"]
            elif kind == "none":
                params[name] = {"t": "none"}
            else:
                params[name] = self.value(kind)
        ghost = {}
        for g, kind in self.job.get("ghost", {}).items():
            ghost[g] = self.value(kind)
        self.fill()
        self.apply_param_hints(params)
        self.seams = None
        if self.job.get("seams"):
            r = self.rnd
            self.seams = {k: True for k in self.job["seams"]}
            self.seams["journal"] = [{"match": r.random() < 0.5, "status": r.choice(["PASS", "FAIL", "ERROR", "WARN", "SKIP"]),
                                      "time": r.choice(["0.5", "1.0", "3.0", "10.0"]), "uid": r.choice(["1", "1r1", "2"]),
                                      "name": r.choice(self.lits)} for _ in range(r.choice([0, 1, 2, 3]))]
            self.seams["on_run"] = r.choice([0, 1, 2])
            self.seams["on_sleep"] = r.choice([0, 1])
        stubs = {}
        for key, (owner, kind, how) in self.job.get("stubs", {}).items():
            table = {}
            for oid, o in self.objects.items():
                if owner in subclasses(self.schema, owner) and o["cls"] in subclasses(self.schema, owner):
                    table[oid] = self.value(kind)
            stubs[key] = table
        return {"params": params, "objects": self.objects, "ghost": ghost, "notes": ["generated"]}, stubs


def main():
    job = json.load(open(sys.argv[1]))
    repo = os.environ.get("VERIF_REPO", job.get("repo", "/repo"))
    sys.path.insert(0, repo)
    sys.path.insert(0, os.path.dirname(os.path.dirname(os.path.abspath(__file__))))
    from replay import builders
    rnd = random.Random(job.get("seed", 0))
    t0 = time.time()
    stats = {"cases": 0, "precondition_rejected": 0, "checked": 0, "errors": 0, "outcomes": {}, "distinct": 0}
    seen = set()
    c = job["contract"]
    base = {"contract": c.get("name"), "target": c.get("target"), "call": c["call"], "requires": c["requires"],
            "ensures": c["ensures"], "raises": c["raises"], "raises_only_if": c.get("raises_only_if", False),
            "stub_kinds": {k: v[2] for k, v in job.get("stubs", {}).items()}}
    first_error = None
    while time.time() - t0 < job.get("budget_s", 20) and stats["cases"] < job.get("max_cases", 100000):
        stats["cases"] += 1
        g = Gen(job, rnd)
        try:
            inputs, stubs = g.inputs()
            w = dict(base, inputs=inputs, stubs=stubs, seams=g.seams)
            key = hash(json.dumps(w["inputs"], sort_keys=True, default=str))
            v = builders.replay(copy.deepcopy(w), repo)
        except Exception:
            stats["errors"] += 1
            first_error = first_error or traceback.format_exc()[-1500:]
            continue
        if v.get("status") == "precondition-violated":
            stats["precondition_rejected"] += 1
            continue
        stats["checked"] += 1
        if key not in seen:
            seen.add(key)
            stats["distinct"] += 1
        oc = (v.get("outcome") or "?").split(":")[0]
        stats["outcomes"][oc] = stats["outcomes"].get(oc, 0) + 1
        if v.get("violated"):
            w["replay_verdict"] = v
            w["obligation"] = v["violated"][0]
            print("FUZZ-RESULT " + json.dumps({"found": True, "witness": w, "stats": stats}, default=str))
            return
        if v.get("errors") and first_error is None:
            first_error = "; ".join(v["errors"])[:1500]
    stats["first_error"] = first_error
    stats["wall_s"] = round(time.time() - t0, 2)
    print("FUZZ-RESULT " + json.dumps({"found": False, "stats": stats}, default=str))


if __name__ == "__main__":
    try:
        main()
    except Exception:
        print("FUZZ-RESULT " + json.dumps({"found": False, "error": traceback.format_exc()[-3000:]}))
